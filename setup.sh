#!/bin/sh
# Offline setup: parse every specification and self-test the shims. Builds nothing else.
set -e
cd "$(dirname "$0")"
mkdir -p .work evidence replay
for f in specs/*.tla; do
  (cd specs && tla-sany "$(basename "$f")" >/dev/null 2>&1) || { echo "SANY failed on $f"; exit 1; }
done
PYTHONPATH=harness/shims /venv/bin/python -c "import portion; portion._selftest(); import crcmod.predefined; print('shims ok')"

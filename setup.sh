#!/bin/sh
# Offline setup: parse every specification and self-test the shims. Builds nothing else.
set -e
cd "$(dirname "$0")"
mkdir -p .work evidence replay
for f in specs/*.tla; do
  out=$(cd specs && tla-sany "$(basename "$f")" 2>&1) || { echo "SANY failed on $f"; exit 1; }
  if echo "$out" | grep -q -E '\*\*\* Errors|Fatal errors|Semantic errors|Could not parse|Parse Error'; then
    echo "SANY reports errors in $f"; exit 1
  fi
done
PYTHONPATH=harness/shims /venv/bin/python -c "import portion; portion._selftest(); import crcmod.predefined; print('shims ok')"

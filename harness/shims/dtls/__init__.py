''' Import-only stub for PyDTLS. '''
from . import sslconnection  # noqa: F401


def do_patch():
    return None


class SSLConnection(object):
    def __init__(self, *a, **k):
        raise NotImplementedError('dtls is not available')

PROTOCOL_DTLS = 0
PROTOCOL_DTLSv1 = 1
PROTOCOL_DTLSv1_2 = 2
CERT_NONE = 0
CERT_OPTIONAL = 1
CERT_REQUIRED = 2
class SSLConnection(object):
    def __init__(self, *a, **k):
        raise NotImplementedError('dtls is not available')

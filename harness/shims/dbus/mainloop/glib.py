def DBusGMainLoop(set_as_default=False):
    return None


def threads_init():
    return None

''' In-process stand-in for dbus-python (absent in this sandbox).

What is modelled: object registration on a connection, method/signal decorators
that keep the declared signature, signal subscription and delivery, proxy
objects.  What is recorded (for property C18 and for every driver): each signal
emission and each exported-method return, with the *declared signature* and a
structural type tag of every argument (``tagof``), in ``RECORDER.events``.

Nothing here decides conformance: the tags are judged by the TLA+ module
``DbusTypes`` during trace validation.
'''
import collections

from . import exceptions  # noqa: F401
from .exceptions import DBusException  # noqa: F401


class _Typed(object):
    pass


class String(str, _Typed):
    def __new__(cls, value='', variant_level=0):
        return str.__new__(cls, value)


class ObjectPath(str, _Typed):
    def __new__(cls, value='', variant_level=0):
        return str.__new__(cls, value)


class Signature(str, _Typed):
    pass


class Boolean(int, _Typed):
    def __new__(cls, value=False, variant_level=0):
        return int.__new__(cls, bool(value))


def _mkint(name, lo, hi):
    def __new__(cls, value=0, variant_level=0):
        value = int(value)
        if not (lo <= value <= hi):
            raise OverflowError('%s out of range for %s' % (value, name))
        return int.__new__(cls, value)
    return type(name, (int, _Typed), {'__new__': __new__})


Byte = _mkint('Byte', 0, 255)
Int16 = _mkint('Int16', -2 ** 15, 2 ** 15 - 1)
UInt16 = _mkint('UInt16', 0, 2 ** 16 - 1)
Int32 = _mkint('Int32', -2 ** 31, 2 ** 31 - 1)
UInt32 = _mkint('UInt32', 0, 2 ** 32 - 1)
Int64 = _mkint('Int64', -2 ** 63, 2 ** 63 - 1)
UInt64 = _mkint('UInt64', 0, 2 ** 64 - 1)


class Double(float, _Typed):
    def __new__(cls, value=0.0, variant_level=0):
        return float.__new__(cls, value)


class ByteArray(bytes, _Typed):
    def __new__(cls, value=b'', variant_level=0):
        return bytes.__new__(cls, value)


class Array(list, _Typed):
    def __init__(self, value=(), signature=None, variant_level=0):
        list.__init__(self, value)
        self.signature = signature


class Dictionary(dict, _Typed):
    def __init__(self, value=(), signature=None, variant_level=0):
        dict.__init__(self, value)
        self.signature = signature


class Struct(tuple, _Typed):
    def __new__(cls, value=(), signature=None, variant_level=0):
        return tuple.__new__(cls, value)


def intclass(val):
    ''' Range class of an integer (TLC integers are 32 bit; never log raw big values). '''
    if val < -2 ** 63:
        return 'nbig'
    if val < -2 ** 31:
        return 'n63'
    if val < -2 ** 15:
        return 'n31'
    if val < 0:
        return 'n15'
    if val <= 255:
        return 'u8'
    if val <= 2 ** 15 - 1:
        return 'u15'
    if val <= 2 ** 16 - 1:
        return 'u16'
    if val <= 2 ** 31 - 1:
        return 'u31'
    if val <= 2 ** 32 - 1:
        return 'u32'
    if val <= 2 ** 63 - 1:
        return 'u63'
    if val <= 2 ** 64 - 1:
        return 'u64'
    return 'big'


def _tag(k, c='', ty='', path=False, keys=(), sub=(), empty=False, n=0):
    return {'k': k, 'c': c, 'ty': ty, 'path': path, 'keys': list(keys), 'sub': list(sub), 'empty': empty, 'n': n}


def tagof(val, depth=0):
    ''' Structural type tag of a Python value: a uniform JSON-able record
    k: none|bool|int|float|str|bytes|list|tuple|dict|other;  c: integer range class;
    ty: dbus wrapper type name ('' for plain Python values);  path: looks like an object path;
    keys: kinds of dict keys;  sub: distinct tags of items / dict values;  n: item count. '''
    ty = type(val).__name__ if isinstance(val, _Typed) else ''
    if val is None:
        return _tag('none')
    if isinstance(val, bool) or isinstance(val, Boolean):
        return _tag('bool', ty=ty)
    if isinstance(val, int):
        return _tag('int', c=intclass(int(val)), ty=ty)
    if isinstance(val, float):
        return _tag('float', ty=ty)
    if isinstance(val, str):
        is_path = isinstance(val, ObjectPath) or (val.startswith('/') and ' ' not in val
                                                  and (val == '/' or not val.endswith('/')))
        return _tag('str', ty=ty, path=is_path)
    if isinstance(val, (bytes, bytearray, memoryview)):
        return _tag('bytes', ty=ty, n=len(val), empty=(len(val) == 0))
    if depth > 2:
        return _tag('other', ty='deep')
    if isinstance(val, dict):
        ks = sorted({tagof(k, depth + 1)['k'] for k in val.keys()})
        vs = [tagof(v, depth + 1) for v in val.values()]
        return _tag('dict', ty=ty, keys=ks, sub=_uniq(vs), empty=not val, n=len(val))
    if isinstance(val, (list, tuple, set, frozenset)) or hasattr(val, '__iter__'):
        try:
            items = list(val)
        except Exception:
            return _tag('other', ty=type(val).__name__)
        kind = 'tuple' if isinstance(val, tuple) else 'list'
        subs = [tagof(v, depth + 1) for v in items]
        if kind == 'list':
            subs = _uniq(subs)
        return _tag(kind, ty=ty, sub=subs, empty=not items, n=len(items))
    return _tag('other', ty=type(val).__name__)


def _uniq(tags):
    out = []
    for t in tags:
        if t not in out:
            out.append(t)
    return out


def parse_signature(sig):
    ''' Tokenise a D-Bus signature into a list of type trees (uniform records):
    {'c': code, 'ch': [children]}; code 'a' has one child, '{' has two (key, value),
    '(' has one per member.  Pure syntax, no judgement. '''
    pos = [0]

    def one():
        ch = sig[pos[0]]
        pos[0] += 1
        if ch == 'a':
            if sig[pos[0]] == '{':
                pos[0] += 1
                key = one()
                val = one()
                assert sig[pos[0]] == '}'
                pos[0] += 1
                return {'c': 'a', 'ch': [{'c': '{', 'ch': [key, val]}]}
            return {'c': 'a', 'ch': [one()]}
        if ch == '(':
            items = []
            while sig[pos[0]] != ')':
                items.append(one())
            pos[0] += 1
            return {'c': '(', 'ch': items}
        return {'c': ch, 'ch': []}

    out = []
    while pos[0] < len(sig):
        out.append(one())
    return out


Event = collections.namedtuple('Event', 'kind obj path iface name sig args tags')


class Recorder(object):
    def __init__(self):
        self.events = []
        self.enabled = True
        self.depth = 0
        self.sink = None  # optional callable(Event): drivers keep one ordered log

    def clear(self):
        self.events = []

    def take(self):
        ev = self.events
        self.events = []
        return ev

    def record(self, kind, obj, iface, name, sig, args):
        if not self.enabled:
            return
        tags = [tagof(a) for a in args]
        path = getattr(obj, '_object_path', None)
        ev = Event(kind, obj, path, iface, name, sig, tuple(args), tags)
        if self.sink is not None:
            self.sink(ev)
        else:
            self.events.append(ev)


RECORDER = Recorder()


class Interface(object):
    ''' Proxy restricted to one interface. '''

    def __init__(self, obj, dbus_interface):
        self._obj = obj
        self._iface = dbus_interface

    def connect_to_signal(self, name, handler, dbus_interface=None, **kw):
        return self._obj.connect_to_signal(name, handler, dbus_interface=dbus_interface or self._iface, **kw)

    def __getattr__(self, name):
        return getattr(self._obj, name)


from . import bus  # noqa: E402,F401
from .bus import SessionBus, SystemBus  # noqa: E402,F401

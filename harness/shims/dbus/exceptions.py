class DBusException(Exception):
    def __init__(self, *args, **kwargs):
        self._dbus_error_name = kwargs.pop('name', None)
        Exception.__init__(self, *args)

    def get_dbus_name(self):
        return self._dbus_error_name


class UnknownMethodException(DBusException):
    pass


class NameExistsException(DBusException):
    pass

''' Bus connection: registry of exported objects and signal subscriptions. '''
from .exceptions import DBusException

BUS_SESSION = 0
BUS_SYSTEM = 1
BUS_STARTER = 2


class _BusDaemon(object):
    ''' The org.freedesktop.DBus object. '''

    def __init__(self, conn):
        self._conn = conn

    def NameHasOwner(self, name):
        return name in self._conn.names

    def connect_to_signal(self, name, handler, dbus_interface=None, **kw):
        self._conn.daemon_subs.append((name, handler))


class ProxyObject(object):

    def __init__(self, conn, serv_name, path):
        self._conn = conn
        self._serv = serv_name
        self._path = path

    def _target(self):
        obj = self._conn.objects.get(self._path)
        if obj is None:
            raise DBusException('No such object %s' % self._path,
                                name='org.freedesktop.DBus.Error.UnknownObject')
        return obj

    def connect_to_signal(self, name, handler, dbus_interface=None, **kw):
        self._conn.subs.append((self._path, dbus_interface, name, handler))
        return (self._path, dbus_interface, name, handler)

    def __getattr__(self, name):
        if name.startswith('_'):
            raise AttributeError(name)

        def call(*args, **kwargs):
            kwargs.pop('dbus_interface', None)
            kwargs.pop('timeout', None)
            meth = getattr(self._target(), name)
            return meth(*args, **kwargs)

        return call


class BusConnection(object):
    ''' All connections with the same address share one registry. '''
    _shared = {}

    def __new__(cls, address_or_type=BUS_SESSION, mainloop=None):
        key = address_or_type
        inst = cls._shared.get(key)
        if inst is None:
            inst = object.__new__(cls)
            inst._setup(key)
            cls._shared[key] = inst
        return inst

    def _setup(self, key):
        self.key = key
        self.objects = {}
        self.names = set()
        self.subs = []
        self.daemon_subs = []
        # how signals reach subscribers: 'direct' (synchronously) or a callable(deliver_fn)
        self.deliver = 'direct'

    @classmethod
    def reset_all(cls):
        cls._shared = {}

    def get_object(self, bus_name, object_path, introspect=True, **kw):
        if bus_name == 'org.freedesktop.DBus':
            return _BusDaemon(self)
        return ProxyObject(self, bus_name, object_path)

    def _register(self, path, obj):
        self.objects[path] = obj

    def _unregister(self, path):
        self.objects.pop(path, None)

    def request_name(self, name):
        old = name in self.names
        self.names.add(name)
        if not old:
            for (sig, handler) in list(self.daemon_subs):
                if sig == 'NameOwnerChanged':
                    handler(name, '', ':1.%d' % len(self.names))

    def _emit(self, path, iface, name, args):
        for (spath, siface, sname, handler) in list(self.subs):
            if spath == path and sname == name and (siface is None or siface == iface):
                if self.deliver == 'direct':
                    handler(*args)
                else:
                    self.deliver(lambda h=handler, a=args: h(*a))

    def close(self):
        pass


def SessionBus(*a, **k):
    return BusConnection(BUS_SESSION)


def SystemBus(*a, **k):
    return BusConnection(BUS_SYSTEM)

''' dbus.service: exported objects, method and signal decorators. '''
import functools
from . import RECORDER
from .bus import BusConnection, BUS_SESSION


class BusName(object):
    def __init__(self, name, bus=None, allow_replacement=False, replace_existing=False, do_not_queue=False):
        self._name = name
        self._bus = bus if bus is not None else BusConnection(BUS_SESSION)
        self._bus.request_name(name)

    def get_name(self):
        return self._name

    def get_bus(self):
        return self._bus


def method(dbus_interface, in_signature=None, out_signature=None, **_kw):
    def deco(func):
        @functools.wraps(func)
        def wrapper(self, *args, **kwargs):
            ret = func(self, *args, **kwargs)
            if out_signature is not None:
                RECORDER.record('return', self, dbus_interface, func.__name__, out_signature,
                                () if out_signature == '' else (ret,))
            return ret
        wrapper._dbus_is_method = True
        wrapper._dbus_interface = dbus_interface
        wrapper._dbus_in_signature = in_signature
        wrapper._dbus_out_signature = out_signature
        return wrapper
    return deco


def signal(dbus_interface, signature=None, **_kw):
    def deco(func):
        @functools.wraps(func)
        def wrapper(self, *args, **kwargs):
            func(self, *args, **kwargs)
            RECORDER.record('signal', self, dbus_interface, func.__name__, signature or '', args)
            for (conn, path) in list(getattr(self, '_locations', [])):
                conn._emit(path, dbus_interface, func.__name__, args)
        wrapper._dbus_is_signal = True
        wrapper._dbus_interface = dbus_interface
        wrapper._dbus_signature = signature
        return wrapper
    return deco


class Object(object):
    def __init__(self, conn=None, object_path=None, bus_name=None):
        self._locations = []
        self._object_path = object_path
        if conn is None and bus_name is not None:
            conn = bus_name.get_bus()
        self._connection = conn
        if conn is not None and object_path is not None:
            self.add_to_connection(conn, object_path)

    @property
    def locations(self):
        return iter(self._locations)

    @property
    def connection(self):
        return self._connection

    def add_to_connection(self, conn, path):
        conn._register(path, self)
        self._locations.append((conn, path))

    def remove_from_connection(self, connection=None, path=None):
        for (conn, opath) in list(self._locations):
            conn._unregister(opath)
        self._locations = []

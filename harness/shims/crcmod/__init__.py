''' Shim for crcmod (absent): table-driven CRC-16/X.25 and CRC-32C only. '''
from . import predefined  # noqa: F401

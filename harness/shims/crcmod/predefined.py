''' Table-driven reflected CRCs for the two algorithms the repository uses.
Self-checked at import against the catalogue check values ("123456789").
The verification oracle uses a *separate* bitwise implementation (harness/indep/crc.py).
'''


def _mk_table(poly_reflected, width):
    table = []
    for n in range(256):
        c = n
        for _ in range(8):
            c = (c >> 1) ^ poly_reflected if c & 1 else c >> 1
        table.append(c)
    return table


_T16 = _mk_table(0x8408, 16)
_T32C = _mk_table(0x82F63B78, 32)


def _crc_x25(data, crc=None):
    reg = 0xFFFF if crc is None else (crc ^ 0xFFFF)
    for b in bytes(data):
        reg = (reg >> 8) ^ _T16[(reg ^ b) & 0xFF]
    return reg ^ 0xFFFF


def _crc_32c(data, crc=None):
    reg = 0xFFFFFFFF if crc is None else (crc ^ 0xFFFFFFFF)
    for b in bytes(data):
        reg = (reg >> 8) ^ _T32C[(reg ^ b) & 0xFF]
    return reg ^ 0xFFFFFFFF


_FUNCS = {'x-25': _crc_x25, 'crc-32c': _crc_32c}

assert _crc_x25(b'123456789') == 0x906E
assert _crc_32c(b'123456789') == 0xE3069283


def mkPredefinedCrcFun(name):
    return _FUNCS[name.lower()]


mkCrcFun = mkPredefinedCrcFun

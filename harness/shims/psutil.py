''' Import-only stub. '''
import socket
AF_LINK = getattr(socket, 'AF_PACKET', 17)
def net_if_addrs():
    return {}

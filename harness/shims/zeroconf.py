''' Import-only stub. '''
class _Stub(object):
    def __init__(self, *a, **k):
        pass
    def __getattr__(self, name):
        raise NotImplementedError('zeroconf is not available')
class IPVersion(object):
    All = 0
    V4Only = 1
    V6Only = 2
class ServiceBrowser(_Stub):
    pass
class ServiceInfo(_Stub):
    pass
class ServiceListener(object):
    pass
class Zeroconf(_Stub):
    pass
class ServiceStateChange(object):
    Added = 1
    Removed = 2
    Updated = 3

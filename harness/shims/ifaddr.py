''' Import-only stub. '''
def get_adapters():
    return []

''' Minimal stand-in for the macaddress package (EUI48 only, value semantics). '''


class HWAddress(object):
    size = 48

    def __init__(self, address):
        if isinstance(address, HWAddress):
            self._val = address._val
        elif isinstance(address, int):
            self._val = address
        elif isinstance(address, (bytes, bytearray)):
            if len(address) * 8 != self.size:
                raise ValueError('wrong size')
            self._val = int.from_bytes(address, 'big')
        elif isinstance(address, str):
            hexs = address.replace(':', '').replace('-', '').replace('.', '')
            if len(hexs) * 4 != self.size:
                raise ValueError('wrong size %r' % address)
            self._val = int(hexs, 16)
        else:
            raise TypeError(type(address))

    def __bytes__(self):
        return self._val.to_bytes(self.size // 8, 'big')

    def __int__(self):
        return self._val

    def __str__(self):
        return '-'.join('%02X' % b for b in bytes(self))

    def __repr__(self):
        return '%s(%r)' % (type(self).__name__, str(self))

    def __eq__(self, other):
        return isinstance(other, HWAddress) and self._val == other._val and self.size == other.size

    def __lt__(self, other):
        return self._val < other._val

    def __hash__(self):
        return hash((self.size, self._val))


class EUI48(HWAddress):
    size = 48


MAC = EUI48

''' Import-only stub: configuration files are never loaded by the harness. '''
def safe_load(_fileobj):
    raise NotImplementedError('yaml is not available in the verification sandbox')
def safe_dump(*_a, **_k):
    raise NotImplementedError('yaml is not available in the verification sandbox')

''' Shim for PyGObject: only ``gi.repository.GLib`` is provided (see GLib.py). '''
def require_version(*_a, **_k):
    return None

from . import GLib  # noqa: F401

''' Deterministic, driver-controlled replacement for the GLib main loop.

The real GLib is not installed in this sandbox.  This module reproduces the
*contract* the repository relies on (idle sources, timeouts, io watches, source
removal, "callback returns falsy => source removed") and hands the choice of
*which* ready source runs next to the verification driver, so that one callback
invocation is exactly one atomic step (one TLA+ action).

There is one global scheduler (``SCHED``); drivers call ``reset()`` per case.
'''
import itertools

IO_IN = 1
IO_PRI = 2
IO_OUT = 4
IO_ERR = 8
IO_HUP = 16
PRIORITY_DEFAULT = 0
PRIORITY_DEFAULT_IDLE = 200
SOURCE_REMOVE = False
SOURCE_CONTINUE = True


class Source(object):
    __slots__ = ('sid', 'kind', 'func', 'args', 'sock', 'cond', 'due', 'interval', 'seq')

    def __init__(self, sid, kind, func, args, sock=None, cond=0, due=None, interval=None, seq=0):
        self.sid = sid
        self.kind = kind  # 'idle' | 'timeout' | 'io'
        self.func = func
        self.args = args
        self.sock = sock
        self.cond = cond
        self.due = due
        self.interval = interval
        self.seq = seq

    @property
    def name(self):
        f = self.func
        owner = getattr(f, '__self__', None)
        n = getattr(f, '__name__', repr(f))
        return n, owner

    def __repr__(self):
        return 'Source(%d,%s,%s)' % (self.sid, self.kind, self.name[0])


class Scheduler(object):

    def __init__(self):
        self.reset()

    def reset(self):
        self.sources = {}
        # source ids are never reused within a process (as with the real GLib): objects of an earlier world may
        # still call source_remove() from a finaliser, which must not hit a source of the current world
        if not hasattr(self, '_ids'):
            self._ids = itertools.count(1)
        self._seq = itertools.count(1)
        self.now_ms = 0
        self.escapes = []  # (source name, exception) that escaped a callback
        self.removed_unknown = 0

    # registration API used by the GLib functions below
    def add(self, kind, func, args, **kw):
        sid = next(self._ids)
        self.sources[sid] = Source(sid, kind, func, args, seq=next(self._seq), **kw)
        return sid

    def remove(self, sid):
        if sid in self.sources:
            del self.sources[sid]
            return True
        self.removed_unknown += 1
        return False

    # driver API
    def ready(self, src):
        if src.kind == 'idle':
            return True
        if src.kind == 'timeout':
            return src.due <= self.now_ms
        if src.kind == 'io':
            poll = getattr(src.sock, 'verif_poll', None)
            if poll is None:
                return False
            return bool(poll() & src.cond)
        return False

    def runnable(self):
        return [s for s in sorted(self.sources.values(), key=lambda s: s.seq) if self.ready(s)]

    def find(self, kind=None, name=None, owner=None):
        out = []
        for s in sorted(self.sources.values(), key=lambda s: s.seq):
            n, o = s.name
            if kind is not None and s.kind != kind:
                continue
            if name is not None and n != name:
                continue
            if owner is not None and o is not owner:
                continue
            out.append(s)
        return out

    def next_timeout(self):
        dues = [s.due for s in self.sources.values() if s.kind == 'timeout']
        return min(dues) if dues else None

    def advance(self, ms):
        self.now_ms += ms

    def advance_to(self, t):
        if t > self.now_ms:
            self.now_ms = t

    def run(self, src, catch=True):
        ''' Dispatch one source once, with GLib semantics.
        :return: (ran, escaped_exception or None)
        '''
        if src.sid not in self.sources:
            return (False, None)
        if src.kind == 'io':
            args = (src.sock, src.cond) + tuple(src.args)
        else:
            args = tuple(src.args)
        exc = None
        keep = False
        try:
            keep = src.func(*args)
        except Exception as err:  # GLib would log and drop the source
            if not catch:
                raise
            exc = err
            self.escapes.append((src.name[0], err))
            keep = False
        if src.sid in self.sources:
            if not keep:
                del self.sources[src.sid]
            elif src.kind == 'timeout':
                src.due = self.now_ms + src.interval
                src.seq = next(self._seq)
            elif src.kind == 'idle':
                src.seq = next(self._seq)
        return (True, exc)


SCHED = Scheduler()


def reset():
    SCHED.reset()


def idle_add(func, *args, **_kw):
    return SCHED.add('idle', func, args)


def timeout_add(interval, func, *args, **_kw):
    interval = int(interval)
    return SCHED.add('timeout', func, args, due=SCHED.now_ms + interval, interval=interval)


def timeout_add_seconds(interval, func, *args, **_kw):
    return timeout_add(int(interval) * 1000, func, *args)


def io_add_watch(sock, *rest):
    # GLib.io_add_watch(channel, [priority,] condition, func, *args)
    # (PyGObject accepts a file descriptor, an object with fileno() or a GLib.IOChannel and asserts otherwise)
    assert isinstance(sock, int) or hasattr(sock, 'fileno'), 'expected an IO channel, got %r' % (sock,)
    if callable(rest[1]):
        cond, func, args = rest[0], rest[1], rest[2:]
    else:
        cond, func, args = rest[1], rest[2], rest[3:]
    return SCHED.add('io', func, args, sock=sock, cond=int(cond))


def source_remove(sid):
    return SCHED.remove(sid)


def get_monotonic_time():
    return SCHED.now_ms * 1000


class MainLoop(object):
    ''' The driver owns the loop; run() only records that it was asked for. '''

    def __init__(self, *_a, **_k):
        self.running = False
        self.quit_calls = 0

    def run(self):
        self.running = True

    def quit(self):
        self.running = False
        self.quit_calls += 1

    def is_running(self):
        return self.running

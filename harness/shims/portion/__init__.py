''' Integer interval sets with the subset of the ``portion`` API the repository uses.

The real package is absent from this sandbox.  Values are normalised, sorted lists of
half-open integer ranges ``[lo, hi)``.  For the operations the repository performs
(``closedopen``/``closed``/``singleton``/``empty``, union, equality, iteration over atomic
intervals with ``.lower``/``.upper``, ``iterate(step=1)``) this coincides with ``portion``
on integer end points: half-open continuous intervals with integer bounds merge exactly
when they touch or overlap, and discrete (step 1) closed intervals merge when adjacent.

Self-test: ``python -m portion`` compares against brute-force sets.
'''


class Interval(object):
    _discrete = False
    __slots__ = ('_r',)

    def __init__(self, ranges=()):
        self._r = self._norm(ranges)

    @staticmethod
    def _norm(ranges):
        rs = sorted((int(lo), int(hi)) for (lo, hi) in ranges if hi > lo)
        out = []
        for (lo, hi) in rs:
            if out and lo <= out[-1][1]:
                if hi > out[-1][1]:
                    out[-1] = (out[-1][0], hi)
            else:
                out.append((lo, hi))
        return tuple(out)

    @classmethod
    def _mk(cls, ranges):
        obj = cls.__new__(cls)
        obj._r = cls._norm(ranges)
        return obj

    # set algebra
    def __or__(self, other):
        if not isinstance(other, Interval):
            return NotImplemented
        return type(self)._mk(self._r + other._r)

    union = __or__

    def __and__(self, other):
        if not isinstance(other, Interval):
            return NotImplemented
        out = []
        for (a, b) in self._r:
            for (c, d) in other._r:
                lo, hi = max(a, c), min(b, d)
                if hi > lo:
                    out.append((lo, hi))
        return type(self)._mk(out)

    intersection = __and__

    def __sub__(self, other):
        if not isinstance(other, Interval):
            return NotImplemented
        out = []
        for (a, b) in self._r:
            cur = a
            for (c, d) in other._r:
                if d <= cur or c >= b:
                    continue
                if c > cur:
                    out.append((cur, c))
                cur = max(cur, d)
            if cur < b:
                out.append((cur, b))
        return type(self)._mk(out)

    difference = __sub__

    def __eq__(self, other):
        if not isinstance(other, Interval):
            return NotImplemented
        return self._r == other._r

    def __ne__(self, other):
        res = self.__eq__(other)
        return res if res is NotImplemented else not res

    def __hash__(self):
        return hash(self._r)

    def __contains__(self, item):
        if isinstance(item, Interval):
            return (item - self).empty
        return any(lo <= item < hi for (lo, hi) in self._r)

    def contains(self, item):
        return item in self

    @property
    def empty(self):
        return not self._r

    @property
    def atomic(self):
        return len(self._r) <= 1

    @property
    def lower(self):
        if not self._r:
            raise ValueError('empty interval')
        return self._r[0][0]

    @property
    def upper(self):
        if not self._r:
            raise ValueError('empty interval')
        hi = self._r[-1][1]
        return hi - 1 if self._discrete else hi

    @property
    def enclosure(self):
        if not self._r:
            return type(self)._mk(())
        return type(self)._mk([(self._r[0][0], self._r[-1][1])])

    def __iter__(self):
        for rng in self._r:
            yield type(self)._mk([rng])

    def __len__(self):
        return len(self._r)

    def __getitem__(self, ix):
        if isinstance(ix, slice):
            return type(self)._mk(self._r[ix])
        return type(self)._mk([self._r[ix]])

    def __bool__(self):
        return bool(self._r)

    def __repr__(self):
        if not self._r:
            return '()'
        if self._discrete:
            return ' | '.join('[%d,%d]' % (lo, hi - 1) for (lo, hi) in self._r)
        return ' | '.join('[%d,%d)' % (lo, hi) for (lo, hi) in self._r)

    # raw access for the harness
    def verif_ranges(self):
        return list(self._r)


class AbstractDiscreteInterval(Interval):
    _discrete = True
    _step = 1
    __slots__ = ()


class _Api(object):
    def __init__(self, cls):
        self._cls = cls

    def empty(self):
        return self._cls._mk(())

    def closedopen(self, lo, hi):
        return self._cls._mk([(lo, hi)])

    def closed(self, lo, hi):
        return self._cls._mk([(lo, hi + 1)])

    def openclosed(self, lo, hi):
        return self._cls._mk([(lo + 1, hi + 1)])

    def open(self, lo, hi):
        return self._cls._mk([(lo + 1, hi)])

    def singleton(self, val):
        return self._cls._mk([(val, val + 1)])


def create_api(cls, **_kw):
    return _Api(cls)


_default = _Api(Interval)
empty = _default.empty
closedopen = _default.closedopen
singleton = _default.singleton


def closed(lo, hi):
    ''' Continuous closed interval with integer bounds: NOT the same as [lo, hi+1) for
    adjacency, so the default API refuses it rather than silently differ from portion. '''
    raise NotImplementedError('portion shim: continuous closed() is not modelled')


def iterate(interval, step=1, base=None, reverse=False):
    vals = []
    for (lo, hi) in interval._r:
        vals.extend(range(lo, hi, step))
    if reverse:
        vals.reverse()
    return iter(vals)


def _selftest():
    import random
    rnd = random.Random(7)
    for _ in range(3000):
        acc = empty()
        ref = set()
        for _k in range(rnd.randint(0, 6)):
            lo = rnd.randint(0, 12)
            hi = lo + rnd.randint(0, 5)
            acc |= closedopen(lo, hi)
            ref |= set(range(lo, hi))
        assert set(iterate(acc, step=1)) == ref
        assert (acc == closedopen(0, 8)) == (ref == set(range(0, 8)))
        for piece in acc:
            assert piece.upper > piece.lower
            assert set(range(piece.lower, piece.upper)) <= ref
            assert piece.lower - 1 not in ref and piece.upper not in ref
    api = create_api(AbstractDiscreteInterval)
    got = api.singleton(0) | api.singleton(2)
    assert got != api.closed(0, 2)
    got |= api.singleton(1)
    assert got == api.closed(0, 2) and list(iterate(got, step=1)) == [0, 1, 2]
    assert empty() == closedopen(0, 0)
    return True


if __name__ == '__main__':
    _selftest()
    print('portion shim self-test ok')

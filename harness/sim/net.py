''' Simulated TCP connection: two FakeSocket endpoints joined by two octet FIFOs.

The *schedule* controls every nondeterministic choice a kernel/network would make:

* ``send_quota``   - how many octets the next ``send()`` accepts (None = all, 0 = EAGAIN);
* ``recv_quota``   - how many octets the next ``recv()`` returns (None = all available);
* delivery         - ``send()`` puts octets *in flight*; ``deliver(k)`` moves k of them to
                     the peer's readable buffer (None = immediately readable).

Everything that crosses the socket is kept (``sent_log``) so an independent decoder can
parse the octet stream of each direction.
'''
import socket

from gi.repository import GLib

_FD = [1000]


class FakeSocket(object):

    def __init__(self, name, local=('10.0.0.1', 40000), remote=('10.0.0.2', 4556), auto_deliver=True):
        self.name = name
        self.peer = None
        self._local = local
        self._remote = remote
        _FD[0] += 1
        self._fd = _FD[0]
        self.closed = False
        self.shut = False
        self.inflight = bytearray()   # sent by us, not yet readable by peer
        self.readable = bytearray()   # readable by us
        self.eof_pending = False      # peer closed; EOF after readable drained
        self.sent_log = bytearray()   # every octet accepted by send()
        self.recv_total = 0
        self.send_quota = None
        self.recv_quota = None
        self.writable = True
        self.auto_deliver = auto_deliver
        self.blocking = True
        self.on_send = None           # callable(sock, nbytes)
        self.on_recv = None           # callable(sock, nbytes)
        self.on_close = None
        self.xform = None
        self.send_calls = 0
        self.eagain_count = 0
        self.sockopts = []

    # --- kernel side
    def verif_poll(self):
        if self.closed:
            return 0
        ev = 0
        if self.readable or self.eof_pending:
            ev |= GLib.IO_IN
        if self.writable:
            ev |= GLib.IO_OUT
        return ev

    def deliver(self, k=None):
        ''' Move k in-flight octets sent by *this* socket to the peer's readable buffer. '''
        if k is None or k > len(self.inflight):
            k = len(self.inflight)
        if k and self.peer is not None and not self.peer.closed:
            self.peer.readable += self.inflight[:k]
        del self.inflight[:k]
        return k

    # --- socket API
    def setblocking(self, flag):
        self.blocking = bool(flag)

    def settimeout(self, _t):
        pass

    def setsockopt(self, *args):
        self.sockopts.append(args)

    def getsockopt(self, *args):
        return 0

    def fileno(self):
        return -1 if self.closed else self._fd

    def getpeername(self):
        return self._remote

    def getsockname(self):
        return self._local

    def send(self, data, *_flags):
        if self.closed:
            raise OSError(9, 'Bad file descriptor')
        self.send_calls += 1
        data = bytes(data)
        if self.peer is None or self.peer.closed or self.shut:
            raise BrokenPipeError(32, 'Broken pipe')
        quota = self.send_quota
        self.send_quota = None
        if quota is not None and quota <= 0:
            self.eagain_count += 1
            raise BlockingIOError(11, 'Resource temporarily unavailable')
        n = len(data) if quota is None else min(len(data), quota)
        chunk = data[:n]
        if self.xform is not None:
            # what this end's implementation puts on the wire differs from what the code under test wrote
            # (used to play a peer that sets reserved bits)
            chunk = self.xform(len(self.sent_log), chunk)
        self.inflight += chunk
        self.sent_log += chunk
        if self.auto_deliver:
            self.deliver()
        if self.on_send:
            self.on_send(self, n)
        return n

    def sendall(self, data, *_flags):
        self.send_quota = None
        self.send(data)

    def recv(self, bufsize, *_flags):
        if self.closed:
            raise OSError(9, 'Bad file descriptor')
        if not self.readable:
            if self.eof_pending:
                if self.on_recv:
                    self.on_recv(self, 0)
                return b''
            raise BlockingIOError(11, 'Resource temporarily unavailable')
        quota = self.recv_quota
        self.recv_quota = None
        n = min(bufsize, len(self.readable))
        if quota is not None:
            n = max(1, min(n, quota))
        data = bytes(self.readable[:n])
        del self.readable[:n]
        self.recv_total += n
        if self.on_recv:
            self.on_recv(self, n)
        return data

    def shutdown(self, _how):
        if self.closed:
            raise OSError(9, 'Bad file descriptor')
        self.shut = True

    def close(self):
        if self.closed:
            return
        self.closed = True
        # octets already accepted by the kernel are still delivered, then EOF
        if self.peer is not None:
            self.deliver()
            self.peer.eof_pending = True
        if self.on_close:
            self.on_close(self)

    def detach(self):
        return self._fd


def socketpair(addr_a=('10.0.0.1', 40000), addr_p=('10.0.0.2', 4556), auto_deliver=True):
    ''' :return: (active side socket, passive side socket) '''
    a = FakeSocket('A', local=addr_a, remote=addr_p, auto_deliver=auto_deliver)
    p = FakeSocket('P', local=addr_p, remote=addr_a, auto_deliver=auto_deliver)
    a.peer = p
    p.peer = a
    return a, p


class FakeTlsSocket(object):
    ''' What ``SSLContext.wrap_socket`` returns: same octet pipe, plus handshake result and
    the peer certificate (real DER produced with ``cryptography``). '''

    def __init__(self, raw, handshake_ok=True, peer_cert_der=None):
        self._raw = raw
        self._ok = handshake_ok
        self._peer_der = peer_cert_der
        self.handshaken = False
        self.name = raw.name + '/tls'

    def do_handshake(self):
        import ssl
        if not self._ok:
            raise ssl.SSLError(1, '[SSL] simulated handshake failure')
        self.handshaken = True

    def cipher(self):
        return ('TLS_FAKE', 'TLSv1.3', 256)

    def getpeercert(self, binary_form=False):
        if binary_form:
            return self._peer_der
        return {}

    def unwrap(self):
        return self._raw

    def __getattr__(self, name):
        return getattr(self._raw, name)

    def verif_poll(self):
        return self._raw.verif_poll()


class FakeSslContext(object):
    def __init__(self, handshake_ok=True, peer_cert_der=None):
        self.handshake_ok = handshake_ok
        self.peer_cert_der = peer_cert_der
        self.wrapped = []

    def wrap_socket(self, sock, server_side=False, do_handshake_on_connect=True, server_hostname=None, **_kw):
        tls = FakeTlsSocket(sock, self.handshake_ok, self.peer_cert_der)
        self.wrapped.append((tls, server_side, server_hostname))
        return tls

''' Batch validation of recorded traces by TLC, and model-checking runs.

``validate(spec, traces, enforced, known)``:
  * shards the traces over N JVMs (``-workers 1`` each; TLC registers are per worker),
  * each JVM reads its shard (JSON array of traces) through ``IOEnv.TRACE_FILE``,
  * a trace is *accepted* iff TLC printed ``DONE`` for it (every line matched a step of the
    specification with every enforced clause true);
  * rejected traces are re-run with ``Diag = TRUE`` so that the failing clause is named.

Exit-code discipline for callers: TLC/JVM malfunction raises ``MachineryError`` (exit 2).
'''
import concurrent.futures
import json
import os
import re
import shutil
import subprocess
import time

VERIF = os.path.dirname(os.path.dirname(os.path.abspath(__file__)))
SPECS = os.path.join(VERIF, 'specs')
WORK = os.path.join(VERIF, '.work')
JAR_CP = '/opt/veriftools/tla/tla2tools.jar:/opt/veriftools/tla/CommunityModules-deps.jar'


class MachineryError(Exception):
    pass


def tla_set(items):
    return '{' + ', '.join(json.dumps(str(x)) for x in sorted(items)) + '}'


def _java(args, env=None, cwd=SPECS, timeout=3600, heap='2g', small=False):
    gc = ['-XX:+UseSerialGC', '-XX:ActiveProcessorCount=2', '-XX:TieredStopAtLevel=1'] if small else ['-XX:+UseParallelGC']
    cmd = ['java'] + gc + ['-Xmx' + heap, '-DTLA-Library=' + SPECS, '-cp', JAR_CP, 'tlc2.TLC'] + args
    full_env = dict(os.environ)
    if env:
        full_env.update(env)
    proc = subprocess.run(cmd, cwd=cwd, env=full_env, stdout=subprocess.PIPE, stderr=subprocess.STDOUT,
                          timeout=timeout)
    return proc.returncode, proc.stdout.decode('utf-8', 'replace')


_DONE = re.compile(r'<<"DONE", (\d+), (\{.*?\})>>')
_REACHED = re.compile(r'<<"REACHED", (\d+), (\d+), (\d+)>>')
_FAIL = re.compile(r'<<"FAILCLAUSE", (\d+), (\d+), "([^"]*)">>')
_STATS = re.compile(r'(\d+) states generated, (\d+) distinct states found')


def _run_shard(spec, shard_dir, traces, enforced, known, diag, extra_consts):
    os.makedirs(shard_dir, exist_ok=True)
    tfile = os.path.join(shard_dir, 'traces.json')
    with open(tfile, 'w') as out:
        json.dump(traces, out)
    cfg = os.path.join(shard_dir, 'trace.cfg')
    with open(cfg, 'w') as out:
        out.write('SPECIFICATION TraceSpec\nCONSTANTS\n')
        out.write('  Enforced = %s\n' % tla_set(enforced))
        out.write('  Known = %s\n' % tla_set(known))
        out.write('  Diag = %s\n' % ('TRUE' if diag else 'FALSE'))
        for (k, v) in (extra_consts or {}).items():
            out.write('  %s = %s\n' % (k, v))
        out.write('POSTCONDITION TraceReport\nCHECK_DEADLOCK FALSE\n')
    meta = os.path.join(shard_dir, 'meta')
    shutil.rmtree(meta, ignore_errors=True)
    rc, out = _java(['-workers', '1', '-noGenerateSpecTE', '-metadir', meta, '-config', cfg,
                     os.path.join(SPECS, spec + '.tla')], env={'TRACE_FILE': tfile}, small=True)
    shutil.rmtree(meta, ignore_errors=True)
    done = {}
    for m in _DONE.finditer(out):
        body = m.group(2).strip('{}').strip()
        done[int(m.group(1))] = set(re.findall(r'"([^"]*)"', body))
    reached = {int(m.group(1)): (int(m.group(2)), int(m.group(3))) for m in _REACHED.finditer(out)}
    fails = {}
    for m in _FAIL.finditer(out):
        fails.setdefault(int(m.group(1)), []).append((int(m.group(2)), m.group(3)))
    stats = _STATS.search(out)
    ok = ('Model checking completed' in out) and len(reached) == len(traces)
    if not ok:
        with open(os.path.join(shard_dir, 'tlc.out'), 'w') as fh:
            fh.write(out)
        raise MachineryError('TLC did not complete on shard %s (rc=%s); see %s/tlc.out\n%s'
                             % (shard_dir, rc, shard_dir, out[-3000:]))
    states = int(stats.group(2)) if stats else 0
    trans = int(stats.group(1)) if stats else 0
    return done, reached, fails, states, trans


def validate(spec, traces, enforced, known=(), name='run', jvms=8, extra_consts=None, diagnose=True):
    ''' :param traces: list of traces (each a list of JSON-able event dicts)
    :return: dict(results=[per trace dict], states, transitions, wall_s)
    '''
    t0 = time.time()
    base = os.path.join(WORK, name)
    shutil.rmtree(base, ignore_errors=True)
    os.makedirs(base, exist_ok=True)
    n = len(traces)
    if n == 0:
        return {'results': [], 'states': 0, 'transitions': 0, 'wall_s': 0.0}
    total_events = sum(len(t) for t in traces)
    nsh = max(1, min(jvms, n, total_events // 12000 + 1))
    shards = [[] for _ in range(nsh)]
    index = [[] for _ in range(nsh)]
    # balance by trace length
    order = sorted(range(n), key=lambda i: -len(traces[i]))
    loads = [0] * nsh
    for i in order:
        k = loads.index(min(loads))
        shards[k].append(traces[i])
        index[k].append(i)
        loads[k] += len(traces[i]) + 1
    results = [None] * n
    states = trans = 0
    with concurrent.futures.ThreadPoolExecutor(max_workers=nsh) as pool:
        futs = {pool.submit(_run_shard, spec, os.path.join(base, 's%d' % k), shards[k], enforced, known,
                            False, extra_consts): k for k in range(nsh)}
        for fut in concurrent.futures.as_completed(futs):
            k = futs[fut]
            done, reached, _f, st, tr = fut.result()
            states += st
            trans += tr
            for (j, gi) in enumerate(index[k]):
                tnum = j + 1
                results[gi] = {
                    'accepted': tnum in done,
                    'kf': sorted(done.get(tnum, set())),
                    'reached': reached[tnum][0] - 1,   # number of lines matched
                    'length': reached[tnum][1],
                    'clauses': [],
                }
    rejected = [i for i in range(n) if not results[i]['accepted']]
    if rejected and diagnose:
        # second pass over the rejected traces only, with the failing clauses named
        chunks = [rejected[k:k + 400] for k in range(0, len(rejected), 400)][:jvms]
        with concurrent.futures.ThreadPoolExecutor(max_workers=len(chunks)) as pool:
            futs = {pool.submit(_run_shard, spec, os.path.join(base, 'diag%d' % k), [traces[i] for i in chunk],
                                enforced, known, True, extra_consts): chunk for (k, chunk) in enumerate(chunks)}
            for fut in concurrent.futures.as_completed(futs):
                chunk = futs[fut]
                done, reached, fails, st, tr = fut.result()
                for (j, gi) in enumerate(chunk):
                    line = results[gi]['reached'] + 1
                    names = sorted({nm for (ln, nm) in fails.get(j + 1, []) if ln == line})
                    results[gi]['clauses'] = names
                    if line <= len(traces[gi]):
                        results[gi]['failing_event'] = traces[gi][line - 1]
    return {'results': results, 'states': states, 'transitions': trans, 'wall_s': time.time() - t0}


# ---------------------------------------------------------------------------- model checking
_MC_DISTINCT = re.compile(r'(\d+) states generated, (\d+) distinct states found')


def model_check(spec, cfg_text, name, workers=16, simulate=None, timeout=1800, heap='8g', extra_args=(),
                module_text=None):
    ''' Run TLC on ``specs/<spec>.tla`` with the given cfg text.  With ``module_text`` the root
    module ``<spec>.tla`` is written to the work directory (it EXTENDS modules of specs/, found
    through TLA-Library), so that one specification serves many generated configurations.
    :return: dict(ok, states, distinct, out, violated)
    '''
    base = os.path.join(WORK, name)
    shutil.rmtree(base, ignore_errors=True)
    os.makedirs(base, exist_ok=True)
    spec_path = os.path.join(SPECS, spec + '.tla')
    if module_text is not None:
        spec_path = os.path.join(base, spec + '.tla')
        with open(spec_path, 'w') as out:
            out.write(module_text)
    cfg = os.path.join(base, 'mc.cfg')
    with open(cfg, 'w') as out:
        out.write(cfg_text)
    meta = os.path.join(base, 'meta')
    args = ['-workers', str(workers), '-noGenerateSpecTE', '-metadir', meta, '-config', cfg]
    if simulate:
        args += ['-simulate', simulate]
    args += list(extra_args)
    args += [spec_path]
    t0 = time.time()
    try:
        rc, out = _java(args, timeout=timeout, heap=heap, cwd=(base if module_text is not None else SPECS))
    except subprocess.TimeoutExpired:
        shutil.rmtree(meta, ignore_errors=True)
        raise MachineryError('TLC timed out on %s/%s' % (spec, name))
    shutil.rmtree(meta, ignore_errors=True)
    with open(os.path.join(base, 'tlc.out'), 'w') as fh:
        fh.write(out)
    m = None
    for m in _MC_DISTINCT.finditer(out):
        pass
    gen = int(m.group(1)) if m else 0
    dist = int(m.group(2)) if m else 0
    violated = None
    mv = re.search(r'Error: Invariant (\S+) is violated', out)
    if mv:
        violated = mv.group(1)
    elif 'Error: Temporal properties were violated' in out or re.search(r'Error: Temporal property \S+ was violated', out):
        mt = re.search(r'Error: Temporal property (\S+) was violated', out)
        violated = 'temporal:' + mt.group(1) if mt else 'temporal'
    elif 'Error: Action property' in out:
        violated = 'action-property'
    elif 'Error: Deadlock reached' in out:
        violated = 'deadlock'
    completed = ('Model checking completed. No error has been found' in out) or \
                (simulate is not None and violated is None and 'Error:' not in out)
    return {'ok': completed and violated is None, 'completed': completed, 'generated': gen, 'distinct': dist,
            'violated': violated, 'out': out, 'rc': rc, 'wall_s': time.time() - t0}

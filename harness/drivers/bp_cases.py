''' Scenario generators for the BP agent checks (C08 C10 C11 C19): bundles are built with the
independent RFC 9171 writer, handed to one real agent, deferred callbacks are run, and the
recorded execution goes to TLC (BpTrace/BpObs). '''
import itertools
import random

import boot  # noqa: F401
from harness.indep import bp7
from harness.drivers.bp_world import BpWorld, dig

NODE = 'dtn://node/'
PROBE = BpWorld.PROBE_EID
F = {'FRAG': 0x1, 'ADMIN': 0x2, 'NOFRAG': 0x4, 'ACKREQ': 0x20, 'TIME': 0x40, 'RCVREP': 0x4000, 'FWDREP': 0x10000,
     'DLVREP': 0x20000, 'DELREP': 0x40000}

ROUTE_TABLES = [
    # (rx routes, tx routes): prefix match, first match wins
    ([(PROBE, 'deliver'), ('dtn://other/', 'forward'), ('dtn://bad/', 'delete')], [('dtn://other/', 'dtn://other/', None), ('dtn://rpt/', 'dtn://rpt/', None)]),
    ([('dtn://other/', 'forward'), ('dtn://', 'delete'), (PROBE, 'deliver')], [('dtn://', 'dtn://hub/', None)]),
    ([('dtn://', 'forward'), ('dtn://other/', 'delete')], [('dtn://other/svc', 'dtn://a/', None), ('dtn://', 'dtn://b/', None)]),
    ([('dtn://o', 'delete'), ('dtn://other/', 'forward'), ('dtn://node/', 'deliver')], [('dtn://', 'dtn://hub/', None)]),
    ([], [('dtn://', 'dtn://hub/', None)]),
    ([('dtn://other/', 'forward')], []),
]


def payload(n, salt=0):
    return bytes((i * 7 + salt * 13 + 1) % 251 for i in range(n))


def mk(src='dtn://src/app', dest=PROBE, rpt='dtn:none', ts=(1000, 0), flags=0, lifetime=3600000, pay=b'data',
       crc=2, ext=(), frag=None, pnum=1, pcrc=None):
    ''' Bundle octets from the independent writer. ext: list of block dicts (type,num,flags,crc_type,data) '''
    prim = {'flags': flags | (F['FRAG'] if frag else 0), 'crc_type': crc, 'dest': dest, 'src': src, 'rpt': rpt,
            'ts_time': ts[0], 'ts_seq': ts[1], 'lifetime': lifetime}
    if frag:
        prim['frag_off'], prim['total'] = frag
    blocks = [dict(b) for b in ext]
    blocks.append({'type': 1, 'num': pnum, 'flags': 0, 'crc_type': crc if pcrc is None else pcrc, 'data': pay})
    return bp7.write_bundle(prim, blocks)


def blk(btype, num, data, flags=0, crc=0):
    return {'type': btype, 'num': num, 'flags': flags, 'crc_type': crc, 'data': data}


def prev_node(num, eid, crc=0):
    return blk(6, num, bp7.enc(bp7.text_to_eid(eid)), crc=crc)


def hop_count(num, limit, count, crc=0):
    return blk(10, num, bp7.enc([limit, count]), crc=crc)


def age(num, ms, crc=0):
    return blk(7, num, bp7.enc(ms), crc=crc)


def unknown(num, k=0, flags=0, crc=0):
    return blk(192 + k, num, bp7.enc([k, 'x' * k]), flags=flags, crc=crc)


def run(world_args, steps, scenario=None):
    ''' steps: list of ('recv', octets, kwargs) | ('idle',) | ('tick', ms) | ('send', octets, kwargs) '''
    world = BpWorld(**world_args)
    for st in steps:
        if st[0] == 'recv':
            world.recv(st[1], **(st[2] if len(st) > 2 else {}))
        elif st[0] == 'send':
            world.send(st[1], **(st[2] if len(st) > 2 else {}))
        elif st[0] == 'send_reuse':
            world.send_reusing(st[1], **(st[2] if len(st) > 2 else {}))
        elif st[0] == 'idle':
            world.run_idle()
        elif st[0] == 'tick':
            world.tick(st[1])
        elif st[0] == 'cl_down':
            world.cl_down(st[1])
        elif st[0] == 'cl_up':
            world.cl_up(st[1])
        elif st[0] == 'cl_attach':
            world.cl_attach_late(st[1])
        elif st[0] == 'idle_n':
            world.run_idle(max_steps=st[1])
    if world.run_idle(max_steps=20000) >= 20000:
        raise RuntimeError('scenario did not quiesce within 20000 deferred callbacks')
    return world.finish(scenario or {})


# ---------------------------------------------------------------------------- C10
def lookalikes():
    ''' Bundles that differ from a base bundle in exactly one identity component. '''
    base = dict(src='dtn://src/app', ts=(1000, 0), dest=PROBE)
    out = {
        'base': mk(**base),
        'same_again': mk(**base),
        'other_payload_same_id': mk(pay=b'different', **base),
        'other_src': mk(**dict(base, src='dtn://src/app2')),
        'other_time': mk(**dict(base, ts=(1001, 0))),
        'other_seq': mk(**dict(base, ts=(1000, 1))),
        'frag_0': mk(frag=(0, 8), pay=b'data', **base),
        'frag_4': mk(frag=(4, 8), pay=b'more', **base),
        'frag_0_total9': mk(frag=(0, 9), pay=b'data', **base),
        'own_source': mk(**dict(base, src=NODE)),
        'admin_dest': mk(**dict(base, dest=NODE, flags=F['ADMIN'], pay=bp7.enc([1, [[[True], [False], [False], [False]], 0, [1, '//x/y'], [5, 0]]]))),
        'to_other': mk(**dict(base, dest='dtn://other/svc')),
        'to_bad': mk(**dict(base, dest='dtn://bad/x', ts=(1000, 7))),
        'to_nowhere': mk(**dict(base, dest='ipn:9.9', ts=(1000, 8))),
    }
    return out


def c10_executions(tier, seed):
    rnd = random.Random(seed * 5 + 2)
    cat = lookalikes()
    names = sorted(cat)
    traces, metas = [], []
    seqs = [(a,) for a in names] + list(itertools.product(names, repeat=2))
    if tier == 'thorough':
        seqs += list(itertools.product(names, repeat=3))
    else:
        seqs += [tuple(rnd.choice(names) for _ in range(3)) for _ in range(150)]
    long_n = 30 if tier == 'quick' else 400
    for _ in range(long_n):
        seqs.append(tuple(rnd.choice(names) for _ in range(rnd.randint(5, 30))))
    for (i, seq) in enumerate(seqs):
        ti = i % len(ROUTE_TABLES)
        rx, tx = ROUTE_TABLES[ti]
        steps = []
        for name in seq:
            steps.append(('recv', cat[name], {'note': name}))
            if rnd.random() < 0.5:
                steps.append(('idle',))
        traces.append(run({'rx_routes': rx, 'tx_routes': tx}, steps))
        metas.append({'table': ti, 'sequence': list(seq) if len(seq) <= 8 else list(seq[:8]) + ['...%d' % len(seq)]})
    # long histories: a repeat arrives after many other identities have been seen
    # (the memory of seen identities must not be a bounded window: thousands of identities in between)
    for n in ((70, 1500) if tier == 'quick' else (20, 70, 300, 1500, 6000)):
        first = mk(src='dtn://src/app', ts=(2000, 0), dest=PROBE, pay=b'first')
        steps = [('recv', first, {'note': 'first'}), ('idle',)]
        for j in range(n):
            steps.append(('recv', mk(src='dtn://src/app', ts=(2000, 1 + j), dest=PROBE if j % 2 else 'dtn://other/svc',
                                     pay=payload(3, j)), {'note': 'other %d' % j}))
            if j % 5 == 0:
                steps.append(('idle',))
        steps += [('idle',), ('recv', first, {'note': 'first again'}), ('idle',)]
        rx, tx = ROUTE_TABLES[0]
        traces.append(run({'rx_routes': rx, 'tx_routes': tx}, steps))
        metas.append({'table': 0, 'sequence': ['first', '%d others' % n, 'first again']})
    return traces, metas


# ---------------------------------------------------------------------------- C11
def c11_executions(tier, seed):
    ''' Received bundles routed "forward" with every mix of hop-by-hop blocks. '''
    rnd = random.Random(seed * 11 + 4)
    traces, metas = [], []
    mixes = list(itertools.product(range(3), range(3), range(3), range(2), range(3), (0, 1, 2), (True, False)))
    if tier == 'quick':
        mixes = rnd.sample(mixes, 220)
    for (i, (nprev, nhop, nage, nunk, numbering, crc, tsnz)) in enumerate(mixes):
        kinds = ['prev'] * nprev + ['hop'] * nhop + ['age'] * nage + ['unk'] * nunk
        rnd.shuffle(kinds)
        if numbering == 0:
            nums = list(range(2, 2 + len(kinds)))
        elif numbering == 1:
            nums = rnd.sample(range(2, 40), len(kinds))
        else:
            nums = sorted(rnd.sample(range(2, 12), len(kinds)), reverse=True)
        ext = []
        for (k, (kind, num)) in enumerate(zip(kinds, nums)):
            bcrc = crc if k % 2 == 0 else (crc + 1) % 3
            if kind == 'prev':
                ext.append(prev_node(num, rnd.choice(['dtn://hop%d/' % k, 'ipn:7.0', NODE, 'ipn:977000.10.0', 'dtn:none']), crc=bcrc))
            elif kind == 'hop':
                ext.append(hop_count(num, rnd.choice([5, 30, 255]), rnd.choice([0, 1, 23, 24, 254]), crc=bcrc))
            elif kind == 'age':
                ext.append(age(num, rnd.choice([0, 10, 70000]), crc=bcrc))
            else:
                ext.append(unknown(num, k, flags=rnd.choice([0, 1]), crc=bcrc))
        flags = rnd.choice([0, F['FWDREP'] | F['RCVREP'], F['NOFRAG'], F['DELREP'] | F['TIME']])
        dest = rnd.choice(['dtn://other/svc', 'dtn://other/x/y'])
        octets = mk(dest=dest, rpt=rnd.choice(['dtn:none', 'dtn://rpt/r']), ts=((123456789 + i) if tsnz else 0, i),
                    flags=flags, pay=payload(rnd.choice([0, 1, 30, 300]), i), crc=crc, ext=ext,
                    lifetime=rnd.choice([1, 3600000, 2 ** 40]))
        ti = rnd.choice([0, 1, 2, 3])
        rx, tx = ROUTE_TABLES[ti]
        steps = [('tick', rnd.choice([0, 5, 1500])), ('recv', octets, {'note': 'mix'}), ('tick', rnd.choice([0, 7])),
                 ('idle',)]
        traces.append(run({'rx_routes': rx, 'tx_routes': tx}, steps))
        metas.append({'table': ti, 'prev': nprev, 'hop': nhop, 'age': nage, 'unknown': nunk, 'numbering': numbering,
                      'crc': crc, 'nonzero_time': tsnz})
    # payloads the node can parse (administrative records in transit) must leave as they came: every shape of
    # status item (asserted with time zero / non-zero / no time, not asserted), reason codes, subject identities
    # with ipn and dtn EIDs, fragment subjects, unknown record types, and encodings that are valid but not the
    # ones the node itself would produce (non-shortest integer heads, indefinite-length arrays)
    items = [[True, 0], [True, 1], [True, 775000000000], [True], [False], [False, 0]]
    recs = []
    for (k, quad) in enumerate(itertools.product(items, repeat=4) if tier == 'thorough'
                               else [tuple(rnd.choice(items) for _ in range(4)) for _ in range(40)] + [([True, 0],) * 4]):
        subj_src = [[1, '//origin/app'], [2, [5, 1]], [1, 0]][k % 3]
        rec = [list(quad), k % 10, subj_src, [k % 2 * 1000, 7]]
        if k % 4 == 3:
            rec += [10, 400]
        recs.append((bp7.enc([1, rec]), 'status %s' % (list(quad),)))
    recs.append((bytes.fromhex('82' '1801' '84' '9f' '81f5' '81f4' '81f4' '81f4' 'ff' '1800' '8201' '6c2f2f6f726967696e2f617070'
                               '82' '1900' '00' '07'), 'status, non-shortest heads and an indefinite-length array'))
    recs.append((bp7.enc([9, [1, 2, 3]]), 'unknown record type'))
    recs.append((bp7.enc([1, [[[True, 0], [False], [False], [False]], 0, [1, '//origin/app'], [0, 7]]]), 'status times all zero'))
    for (k, (pay, what)) in enumerate(recs):
        for frag in ((None,) if k % 5 else (None, (0, len(pay) + 9))):
            octets = mk(src='dtn://reporter/', dest='dtn://other/svc', ts=((0 if k % 3 == 0 else 780000000000 + k), k),
                        flags=F['ADMIN'], pay=pay, crc=1 + k % 2, frag=frag,
                        ext=[hop_count(2, 30, 1, crc=k % 3)] if k % 2 else [])
            rx, tx = ROUTE_TABLES[k % 2]
            traces.append(run({'rx_routes': rx, 'tx_routes': tx}, [('recv', octets, {'note': 'admin'}), ('idle',)]))
            metas.append({'table': k % 2, 'administrative_record_in_transit': what, 'fragment': bool(frag)})
    return traces, metas


# ---------------------------------------------------------------------------- C08
def c08_shapes(rnd):
    shapes = []
    k = 0
    for crc_p in (0, 1, 2):
        for crc_b in (0, 1, 2):
            for ext_kind in (0, 1, 2):
                k += 1
                ext = []
                if ext_kind >= 1:
                    ext.append(hop_count(2, 30, 1, crc=crc_b))
                if ext_kind == 2:
                    ext.append(unknown(5, 3, crc=(crc_b + 1) % 3))
                    ext.append(prev_node(3, 'dtn://prev/', crc=crc_b))
                for dest in (PROBE, 'dtn://other/svc'):
                    shapes.append(mk(dest=dest, rpt='dtn://rpt/r', ts=(5000 + k, k), flags=F['RCVREP'] | F['DLVREP'] | F['FWDREP'],
                                     pay=payload(rnd.choice([0, 3, 40]), k), crc=crc_p, pcrc=crc_b, ext=ext))
    # endpoint IDs and blocks whose decoded form is not one-to-one with their encoding: node-only dtn EIDs
    # (trailing slash), ipn EIDs, dtn:none, Bundle Age (a bare unsigned integer), creation time 0
    for crc in (1, 2):
        k += 1
        shapes.append(mk(src='dtn://src/', dest='dtn://other/', rpt='dtn://rpt/', ts=(6000 + k, 0),
                         flags=F['FWDREP'], pay=payload(5, k), crc=crc,
                         ext=[prev_node(3, 'dtn://prev/', crc=crc), age(2, 500, crc=crc)]))
        shapes.append(mk(src='ipn:5.1', dest='ipn:7.2', rpt='ipn:5.0', ts=(0, k), pay=payload(3, k), crc=crc,
                         ext=[age(2, 70000, crc=crc), hop_count(3, 30, 1, crc=3 - crc)]))
        shapes.append(mk(src='dtn://src/a', dest=PROBE, rpt='dtn:none', ts=(6000 + k, 1), flags=F['DLVREP'],
                         pay=payload(9, k), crc=crc, ext=[prev_node(2, 'ipn:9.0', crc=crc)]))
    return shapes


def corruptions(octets, rnd, all_bits, nsample):
    ''' Single-bit flips and short bursts inside CRC-protected blocks (spans from the independent reader). '''
    bun = bp7.read_bundle(octets)
    spans = []
    if bun['primary']['crc_type']:
        spans.append((bun['primary']['span'], bun['primary']['crc_type']))
    for b in bun['blocks']:
        if b['crc_type']:
            spans.append((b['span'], b['crc_type']))
    muts = []
    for ((lo, hi), ctype) in spans:
        bits = [(pos, bit) for pos in range(lo, hi) for bit in range(8)]
        chosen = bits if all_bits else rnd.sample(bits, min(nsample, len(bits)))
        for (pos, bit) in chosen:
            mut = bytearray(octets)
            mut[pos] ^= (1 << bit)
            muts.append((bytes(mut), 'bit %d of octet %d' % (bit, pos)))
        width = 16 if ctype == 1 else 32
        # directed bursts (all within one octet): the block's array head becomes a "break" (the bundle then ends
        # early), and the major type of an item changes while its argument stays (uint <-> simple value etc.)
        directed = [(lo, octets[lo] ^ 0xFF)]
        for pos in (range(lo, hi) if all_bits else rnd.sample(range(lo, hi), min(6, hi - lo))):
            directed.append((pos, 0xE0))
            directed.append((pos, 0x60))
        for (pos, mask) in directed:
            if mask == 0 or bin(mask).count('1') < 2:
                continue
            mut = bytearray(octets)
            mut[pos] ^= mask
            muts.append((bytes(mut), 'burst %s on octet %d' % (bin(mask), pos)))
        for _ in range(3 if not all_bits else 12):
            blen = rnd.randint(2, width)
            start = rnd.randint(lo * 8, hi * 8 - blen)
            mut = bytearray(octets)
            pattern = rnd.getrandbits(blen) | 1 | (1 << (blen - 1))
            for j in range(blen):
                if pattern >> j & 1:
                    mut[(start + j) // 8] ^= 1 << ((start + j) % 8)
            muts.append((bytes(mut), 'burst of %d bits at bit %d' % (blen, start)))
    return muts


def c08_executions(tier, seed):
    rnd = random.Random(seed * 17 + 8)
    traces, metas = [], []
    shapes = c08_shapes(rnd)
    rx, tx = ROUTE_TABLES[0]
    for (si, octets) in enumerate(shapes):
        # every single-bit flip of every protected block: quick = the six "aliasing" shapes and three of the grid
        all_bits = (si >= 54 or si in (26, 40, 53)) if tier == 'quick' else True
        muts = corruptions(octets, rnd, all_bits, 12 if tier == 'quick' else 80)
        # clean run: output CRCs
        traces.append(run({'rx_routes': rx, 'tx_routes': tx}, [('recv', octets, {'note': 'clean'}), ('idle',)]))
        metas.append({'shape': si, 'mutation': 'none'})
        # several corrupted copies, then the good one must still be processed
        for k in range(0, len(muts), 6):
            steps = []
            for (mut, what) in muts[k:k + 6]:
                steps.append(('recv', mut, {'note': what, 'corrupt': True}))
                steps.append(('idle',))
            steps.append(('recv', octets, {'note': 'good copy'}))
            steps.append(('idle',))
            traces.append(run({'rx_routes': rx, 'tx_routes': tx}, steps))
            metas.append({'shape': si, 'mutation': [w for (_m, w) in muts[k:k + 6]]})
    return traces, metas


# ---------------------------------------------------------------------------- C19
def c19_executions(tier, seed):
    rnd = random.Random(seed * 19 + 9)
    traces, metas = [], []
    flagsets = []
    for mask in range(16):
        fl = 0
        for (bit, name) in enumerate(('RCVREP', 'FWDREP', 'DLVREP', 'DELREP')):
            if mask >> bit & 1:
                fl |= F[name]
        flagsets.append(fl)
    outcomes = [('deliver', PROBE), ('forward', 'dtn://other/svc'), ('forward_nofragroute', 'dtn://far/x'),
                ('delete', 'dtn://bad/x'), ('noroute', 'dtn://nowhere/z'), ('admin', NODE)]
    rpts = ['dtn:none', 'dtn://rpt/r', 'dtn://unroutable/r', NODE + 'rpt']
    k = 0
    rows = list(itertools.product(flagsets, (0, F['TIME']), rpts, outcomes))
    if tier == 'quick':
        rows = rnd.sample(rows, 300)
    rx = [(PROBE, 'deliver'), ('dtn://other/', 'forward'), ('dtn://far/', 'forward'), ('dtn://bad/', 'delete')]
    tx = [('dtn://other/', 'dtn://other/', None), ('dtn://rpt/', 'dtn://rpt/', None), (NODE, NODE, None)]
    for (fl, tflag, rpt, (outcome, dest)) in rows:
        k += 1
        pay = payload(5, k)
        fl2 = fl | tflag
        if outcome == 'admin':
            fl2 |= F['ADMIN']
            pay = bp7.enc([1, [[[True], [False], [False], [False]], 0, [1, '//x/y'], [5, 0]]])
        # every fourth subject comes from a source without a clock: creation time 0 and a Bundle Age block
        clockless = (k % 4 == 0)
        # (hop counts below, at and beyond their limit: whatever the node does with an exhausted bundle, its report
        # says what happened)
        ext = [hop_count(2, *[(9, 1), (1, 0), (1, 1), (30, 30), (5, 254), (255, 254)][(k // 2) % 6])] if k % 2 else []
        if clockless:
            ext = ext + [age(5, 1200 + k)]
        octets = mk(dest=dest, rpt=rpt, ts=(0, k) if clockless else (777000 + k, k % 3), flags=fl2, pay=pay,
                    crc=rnd.choice([0, 1, 2]), ext=ext)
        steps = [('recv', octets, {'note': outcome}), ('idle',), ('recv', octets, {'note': 'repeat'}), ('idle',)]
        traces.append(run({'rx_routes': rx, 'tx_routes': tx}, steps))
        metas.append({'flags': sorted(n for (n, v) in F.items() if fl2 & v), 'report_to': rpt, 'outcome': outcome,
                      'clockless_source': clockless})
    # the same through the real convergence layer adaptors (bp.cla) with CL services leaving / re-joining the bus:
    # a bundle whose CL service is away never leaves the node, so it is deleted, not forwarded
    txa = [('dtn://other/', 'dtn://other/', None, 'udpcl'), ('dtn://far/', 'dtn://far/', None, 'btpu'),
           ('dtn://rpt/', 'dtn://rpt/', None, 'btpu'), ('dtn://rpu/', 'dtn://rpu/', None, 'udpcl')]
    nadapt = 60 if tier == 'quick' else 600
    for j in range(nadapt):
        k += 1
        steps = []
        down = set()
        desc = []
        for n in range(rnd.choice([2, 3, 4])):
            move = rnd.choice(['recv', 'recv', 'recv', 'toggle_udpcl', 'toggle_btpu'])
            if move.startswith('toggle'):
                cl = move[7:]
                steps.append(('cl_up' if cl in down else 'cl_down', cl))
                down ^= {cl}
                desc.append(('up ' if cl not in down else 'down ') + cl)
                continue
            fl = rnd.choice(flagsets) | rnd.choice([0, F['TIME']])
            dest = rnd.choice(['dtn://other/svc', 'dtn://far/x', PROBE, 'dtn://bad/x'])
            rpt = rnd.choice(['dtn://rpt/r', 'dtn://rpu/r', 'dtn:none'])
            octets = mk(dest=dest, rpt=rpt, ts=(888000 + k, n), flags=fl, pay=payload(6, k + n),
                        crc=rnd.choice([0, 1, 2]), ext=[hop_count(2, 9, rnd.choice([1, 8, 9, 20]))] if n % 2 else [])
            via = rnd.choice([None, 'udpcl', 'btpu'])
            steps.append(('recv', octets, {'note': 'adaptor', 'via': None if via in down else via}))
            steps.append(('idle',))
            desc.append('recv %s rpt %s' % (dest, rpt))
        traces.append(run({'rx_routes': rx, 'tx_routes': txa, 'adaptors': True}, steps))
        metas.append({'adaptors': True, 'script': desc})
    # subjects that arrive as fragments and are re-assembled and delivered here
    for j in range(12 if tier == 'quick' else 120):
        k += 1
        total = rnd.choice([9, 24, 60])
        pay = payload(total, k)
        cuts = cuts_for(total, rnd.choice(['uniform', 'uneven']), rnd)
        fl = rnd.choice([F['DLVREP'], F['DLVREP'] | F['RCVREP'], F['DLVREP'] | F['TIME'], F['RCVREP'], 0])
        rpt = rnd.choice(['dtn://rpt/r', 'dtn://rpt/r', 'dtn:none'])
        order = list(range(len(cuts)))
        rnd.shuffle(order)
        steps = []
        for i in order:
            (o, n) = cuts[i]
            steps.append(('recv', mk(dest=PROBE, rpt=rpt, ts=(666000 + k, 0), flags=fl, pay=pay[o:o + n], frag=(o, total),
                                     crc=rnd.choice([0, 1, 2])), {'note': 'fragment'}))
            steps.append(('idle',))
        orig = {'dtn://src/app|%d|0' % (666000 + k): {'dig': dig(pay), 'len': total}}
        traces.append(run({'rx_routes': rx, 'tx_routes': tx}, steps, scenario={'orig': orig}))
        metas.append({'fragments': [list(c) for c in cuts], 'order': order, 'report_to': rpt,
                      'flags': sorted(n for (n, v) in F.items() if fl & v)})
    # directed: the CL service of the forwarding route is away, the one of the report-to route is present
    for (cl, dest, rpt) in (('udpcl', 'dtn://other/svc', 'dtn://rpt/r'), ('btpu', 'dtn://far/x', 'dtn://rpu/r')):
        for fl in (F['FWDREP'], F['DELREP'], F['FWDREP'] | F['DELREP'],
                   F['RCVREP'] | F['FWDREP'] | F['DELREP'] | F['TIME'], 0):
            k += 1
            b1 = mk(dest=dest, rpt=rpt, ts=(999000 + k, 0), flags=fl, pay=payload(7, k), crc=1)
            b2 = mk(dest=dest, rpt=rpt, ts=(999000 + k, 1), flags=fl, pay=payload(8, k), crc=2)
            b0 = mk(dest=dest, rpt=rpt, ts=(999000 + k, 2), flags=fl, pay=payload(9, k), crc=0)
            steps = [('recv', b0, {'note': 'cl up'}), ('idle',), ('cl_down', cl), ('recv', b1, {'note': 'cl away'}),
                     ('idle',), ('cl_up', cl), ('recv', b2, {'note': 'cl back'}), ('idle',)]
            traces.append(run({'rx_routes': rx, 'tx_routes': txa, 'adaptors': True}, steps))
            metas.append({'adaptors': True, 'script': ['recv', 'down ' + cl, 'recv', 'up ' + cl, 'recv'],
                          'flags': sorted(n for (n, v) in F.items() if fl & v)})
    return traces, metas


# ---------------------------------------------------------------------------- C05
def envelope(dest, src, flags, crc, ext, total, off, rpt='dtn:none'):
    ''' Size of a fragment bundle with empty payload, by the independent writer. '''
    return len(mk(src=src, dest=dest, rpt=rpt, flags=flags, crc=crc, ext=ext, frag=(off, total), pay=b'',
                  ts=(5000, 1)))


def c05_cases(tier, rnd):
    lens = set()
    for centre in (24, 256):
        lens.update(range(centre - 3, centre + 3))
    lens.update([0, 1, 5, 40, 1000, 65534, 65535, 65536, 65537])
    if tier == 'thorough':
        for centre in (24, 256, 65536):
            lens.update(range(centre - 12, centre + 12))
        lens.update([70000, 200000])
    ext_sets = {
        'none': [],
        'hop': [hop_count(2, 30, 1)],
        'repl': [unknown(3, 2, flags=1), hop_count(2, 30, 1)],
        'allrepl': [unknown(3, 2, flags=1)],
        'mixed': [unknown(7, 1, flags=0), unknown(3, 2, flags=1), prev_node(4, 'dtn://p/')],
    }
    cases = []
    for total in sorted(lens):
        for (ename, ext) in ext_sets.items():
            for crc in (0, 1, 2):
                for mode in ('send', 'forward'):
                    cases.append((total, ename, ext, crc, mode))
    if tier == 'quick':
        cases = rnd.sample(cases, 150)
    # fragmentation that becomes impossible part-way: the first fragments fit, a later one does not, because the
    # head of the fragment-offset field grows at 24 / 256 / 65536 (needs every extension block replicated)
    for total in ((30, 300) if tier == 'quick' else (25, 26, 30, 40, 257, 300, 1000)):
        for ename in ('none', 'allrepl'):
            for crc in (0, 1, 2) if tier != 'quick' else (0, 1):
                for mode in ('send', 'forward'):
                    cases.append((total, ename, ext_sets[ename], crc, mode, 'midway'))
    # the whole bundle is only a few octets larger than the MTU (the width of its CRC fields and less)
    for total in ((40, 300) if tier == 'quick' else (0, 5, 40, 300, 1000)):
        for ename in ('none', 'hop'):
            for crc in (1, 2):
                for mode in ('send', 'forward'):
                    cases.append((total, ename, ext_sets[ename], crc, mode, 'justover'))
    return cases


_DELTA = {}


def probe_delta(mode, ename, ext, crc):
    ''' Scenario generation only: by how many octets the agent's own fragment envelope exceeds the envelope
    of the received blocks (the agent adds blocks of its own when it forwards, e.g. Previous Node).  Found by
    offering a 10-octet payload at growing MTUs until fragments appear; every verdict is still TLC's. '''
    key = (mode, ename, crc)
    if key in _DELTA:
        return _DELTA[key]
    src = NODE + 'app' if mode == 'send' else 'dtn://src/app'
    dest = 'dtn://other/svc'
    e0 = envelope(dest, src, 0, crc, ext, 10, 0)
    octets = mk(src=src, dest=dest, flags=0, crc=crc, ext=ext, pay=payload(10, 1), ts=(4000, 1))
    found = 0
    for d in range(-3, 120):
        tx = [('dtn://other/', 'dtn://other/', e0 + 1 + d)]
        steps = [('send', octets, {'expect_error': True}) if mode == 'send' else ('recv', octets, {'note': 'probe'}),
                 ('idle',)]
        trace = run({'rx_routes': [('dtn://other/', 'forward')], 'tx_routes': tx}, steps)
        if sum(1 for ev in trace if ev['a'] == 'ClOut') >= 2:
            found = d
            break
    _DELTA[key] = found
    return found


def c05_executions(tier, seed):
    rnd = random.Random(seed * 23 + 5)
    traces, metas = [], []
    expanded = []
    for case in c05_cases(tier, rnd):
        if len(case) == 5:
            expanded.append(case + (None, 0))
        elif case[5] == 'justover':
            expanded.extend(case + (over,) for over in ((1, 2, 3, 4, 6, 9, 16) if tier != 'quick' else (1, 2, 4, 9)))
        else:
            expanded.extend(case + (back,) for back in (-1, 0, 1, 2))
    for (k, (total, ename, ext, crc, mode, forced, back)) in enumerate(expanded):
        src = NODE + 'app' if mode == 'send' else 'dtn://src/app'
        dest = 'dtn://other/svc'
        flags = rnd.choice([0, 0, 0, F['RCVREP'] | F['FWDREP'] | F['DELREP']])
        special = rnd.choice(['frag', 'frag', 'frag', 'frag', 'fits', 'nofrag', 'isfrag', 'impossible'])
        if forced:
            special = forced
        pay = payload(total, k)
        rpt = rnd.choice(['dtn:none', 'dtn://rpt/r'])
        # envelope at the largest fragment offset, as the agent itself will build it
        delta = probe_delta(mode, ename, ext, crc)
        # (the agent budgets every fragment with the byte-string head of the whole payload length)
        env = envelope(dest, src, flags, crc, ext, total, max(total - 1, 0), rpt) + delta + len(bp7.head(2, total)) - 1
        whole = len(mk(src=src, dest=dest, flags=flags, crc=crc, ext=ext, pay=pay, ts=(5000 + k, 1)))
        # keep the number of fragments small: per-fragment budget at least total/30
        slack_choices = [1, 2, 3, 9, 23, 24, 25, 100, 255, 256, 257, 3000]
        slack = rnd.choice([s for s in slack_choices if s * 30 >= total] or [max(1, total // 12)])
        frag = None
        if special == 'fits':
            mtu = whole + rnd.choice([0, 1, 50])
        elif special == 'impossible':
            mtu = rnd.choice([env - 1, env - 5, 10, env, env - delta])
            if total > 3000:
                # certainly below the first fragment's envelope (a tight MTU would mean thousands of fragments)
                mtu = rnd.choice([10, env - delta - 60])
        elif special == 'justover':
            mtu = whole + delta - back
        elif special == 'midway':
            # env is the envelope at the largest offset: at env (and env - 1 beyond 256) the early fragments
            # carry one or two octets and a later one has no room; env + 1 is the smallest workable MTU
            mtu = env - back
        elif special == 'nofrag':
            flags |= F['NOFRAG']
            mtu = env + slack
        elif special == 'isfrag':
            frag = (7, total + 20)
            mtu = env + slack
        else:
            mtu = env + slack
        octets = mk(src=src, dest=dest, rpt=rpt, flags=flags, crc=crc, ext=ext, pay=pay, ts=(5000 + k, 1), frag=frag)
        rx = [('dtn://other/', 'forward')]
        tx = [('dtn://other/', 'dtn://other/', mtu), ('dtn://rpt/', 'dtn://rpt/', None)]
        if mode == 'send':
            steps = [('send', octets, {'expect_error': True, 'unfinished_crc': bool(k % 2)}), ('idle',)]
        else:
            steps = [('recv', octets, {'note': special}), ('idle',)]
        traces.append(run({'rx_routes': rx, 'tx_routes': tx}, steps))
        metas.append({'mode': mode, 'total': total, 'mtu': mtu, 'envelope': env, 'whole': whole, 'ext': ename,
                      'crc': crc, 'case': special, 'flags': flags, 'own_blocks_octets': delta})
    # bundles in transit from sources without a clock (creation time 0, told apart by their sequence numbers, age in
    # a Bundle Age block), with lifetime 0 or not: their fragments keep that identity like any other fragment
    for (k, (total, lifetime, crc)) in enumerate(itertools.product((300, 1000), (0, 3600000), (0, 1, 2))):
        ext_c = [age(2, 1234 + k)] + ([unknown(3, 2, flags=1)] if k % 2 else [])
        octets = mk(src='dtn://src/app', dest='dtn://other/svc', rpt='dtn:none', flags=0, crc=crc, ext=ext_c,
                    pay=payload(total, 77 + k), ts=(0, 60 + k), lifetime=lifetime)
        mtu = envelope('dtn://other/svc', 'dtn://src/app', 0, crc, ext_c, total, total - 1) + 60 + 11 * k
        traces.append(run({'rx_routes': [('dtn://other/', 'forward')], 'tx_routes': [('dtn://other/', 'dtn://other/', mtu)]},
                          [('recv', octets, {'note': 'clockless'}), ('idle',)]))
        metas.append({'mode': 'forward', 'total': total, 'mtu': mtu, 'case': 'clockless source', 'crc': crc,
                      'lifetime': lifetime})
    # a locally built bundle whose blocks carry no block numbers yet (the agent assigns them)
    for (k, (total, crc, ename)) in enumerate(itertools.product((300, 1000), (0, 2), ('none', 'hop'))):
        ext_u = [hop_count(2, 30, 1)] if ename == 'hop' else []
        octets = mk(src=NODE + 'app', dest='dtn://other/svc', rpt='dtn:none', flags=0, crc=crc, ext=ext_u,
                    pay=payload(total, 55 + k), ts=(9500 + k, 1))
        mtu = envelope('dtn://other/svc', NODE + 'app', 0, crc, ext_u, total, total - 1) + 50 + 13 * k
        traces.append(run({'rx_routes': [('dtn://other/', 'forward')], 'tx_routes': [('dtn://other/', 'dtn://other/', mtu)]},
                          [('send', octets, {'expect_error': True, 'unnumbered': True, 'unfinished_crc': bool(k % 2)}),
                           ('idle',)]))
        metas.append({'mode': 'send', 'total': total, 'mtu': mtu, 'case': 'blocks not numbered by the application',
                      'crc': crc, 'ext': ename})
    # an application that keeps one container and replaces the bundle in it between requests: bundles of the same
    # block layout and different sizes one after the other (fits / needs fragments, in every order of two or three)
    ext_r = [hop_count(2, 30, 1)]
    sizes = (35, 600, 90, 1400)
    seqs = [q for n in (2, 3) for q in itertools.product(sizes, repeat=n) if len(set(q)) == len(q)]
    if tier == 'quick':
        seqs = [q for q in seqs if len(q) == 2] + rnd.sample([q for q in seqs if len(q) == 3], 6)
    for (k, seq) in enumerate(seqs):
        crc = k % 3
        mtu = envelope('dtn://other/svc', NODE + 'app', 0, crc, ext_r, max(seq), max(seq) - 1, 'dtn:none') + 40 + 17 * (k % 4)
        steps = []
        for (j, total) in enumerate(seq):
            octets = mk(src=NODE + 'app', dest='dtn://other/svc', rpt='dtn:none', flags=0, crc=crc,
                        ext=ext_r if k % 2 == 0 else [], pay=payload(total, 31 * k + j), ts=(9000 + 10 * k + j, j))
            steps += [('send_reuse', octets, {'expect_error': True}), ('idle',)]
        traces.append(run({'rx_routes': [('dtn://other/', 'forward')],
                           'tx_routes': [('dtn://other/', 'dtn://other/', mtu)]}, steps))
        metas.append({'mode': 'send', 'total': list(seq), 'mtu': mtu, 'case': 'one container reused by the application',
                      'crc': crc, 'ext': 'hop' if k % 2 == 0 else 'none'})
    # (no fragment is handed over while its CL is away or unknown: that hand-over fails and the fragment is lost,
    # which is a matter of CL availability, not of fragmentation - only the forwarding step runs in between)
    # two routes to the same destination over different convergence layers with different MTUs (through the real
    # adaptors), and the CL daemon of the preferred route away while the bundle is accepted and back before its
    # fragments are handed over: whatever route a fragment takes, it fits that route
    scripts = [['down', 'recv', 'up', 'idle'], ['recv', 'down', 'up', 'idle'], ['down', 'up', 'recv', 'idle'],
               ['recv', 'one', 'attach', 'idle'], ['recv', 'one', 'down', 'up', 'idle'], ['attach', 'recv', 'idle']]
    combos = list(itertools.product([(120, 300), (300, 120), (150, 151), (200, 1000), (1000, 200)],
                                    [('udpcl', 'btpu'), ('btpu', 'udpcl')], (0, 1), scripts))
    if tier == 'quick':
        # the preferred route's CL turning up between the forwarding step and the hand-over of the fragments is
        # always included, the rest is sampled
        must = [c for c in combos if c[3] == scripts[3] and c[2] == 0]
        combos = must + rnd.sample([c for c in combos if c not in must], 20)
    for (k, ((m1, m2), (c1, c2), awayidx, script)) in enumerate(combos):
        total = [400, 1000, 2500][k % 3]
        octets = mk(src='dtn://src/app', dest='dtn://other/svc', rpt='dtn:none', flags=0, crc=k % 3,
                    pay=payload(total, k), ts=(7000 + k, 1))
        away = (c1, c2)[awayidx]
        steps = []
        for st in script:
            steps.append({'down': ('cl_down', away), 'up': ('cl_up', away), 'recv': ('recv', octets, {'note': 'two routes'}),
                          'idle': ('idle',), 'attach': ('cl_attach', away), 'one': ('idle_n', 1)}[st])
        tx = [('dtn://other/', 'dtn://other/', m1, c1), ('dtn://other/', 'dtn://other/', m2, c2)]
        traces.append(run({'rx_routes': [('dtn://other/', 'forward')], 'tx_routes': tx, 'adaptors': True,
                           'defer_attach': (away,) if 'attach' in script else ()}, steps))
        metas.append({'mode': 'forward', 'total': total, 'mtu': [m1, m2], 'case': 'two routes, CL away or not yet known meanwhile',
                      'cl': [c1, c2], 'away': away, 'script': script})
    return traces, metas


# ---------------------------------------------------------------------------- C06
def cuts_for(total, style, rnd):
    ''' [(off, len)] covering [0,total): uniform, uneven, or with overlapping extra pieces. '''
    if style == 'uniform':
        n = rnd.choice([2, 3, 4])
        size = -(-total // n)
        out = [(o, min(size, total - o)) for o in range(0, total, size)]
    elif style == 'uneven':
        points = sorted(rnd.sample(range(1, total), min(rnd.choice([1, 2, 3]), total - 1)))
        edges = [0] + points + [total]
        out = [(edges[i], edges[i + 1] - edges[i]) for i in range(len(edges) - 1)]
    else:
        out = cuts_for(total, 'uneven', rnd)
        for _ in range(rnd.choice([1, 2])):
            o = rnd.randint(0, total - 2)
            out.append((o, rnd.randint(1, total - o)))
    return out


def c06_executions(tier, seed):
    rnd = random.Random(seed * 29 + 6)
    traces, metas = [], []
    nruns = 180 if tier == 'quick' else 4000
    for k in range(nruns):
        nb = rnd.choice([1, 2, 2])
        bundles = []
        orig = {}
        for j in range(nb):
            total = rnd.choice([2, 3, 5, 8, 13, 40] if k % 7 else [40, 120, 300])
            pay = payload(total, k * 3 + j)
            # bundles differ in source or creation timestamp only
            src = 'dtn://src/app' if (j == 0 or rnd.random() < 0.5) else 'dtn://src/app2'
            ts = (9000 + k, j if src == 'dtn://src/app' else 0)
            ext = [hop_count(2, 9, 1)] + ([unknown(4 + j, j, flags=1)] if rnd.random() < 0.5 else [])
            style = rnd.choice(['uniform', 'uneven', 'overlap'])
            pieces = cuts_for(total, style, rnd) if total >= 2 else [(0, total)]
            frags = []
            for (o, n) in pieces:
                fext = ext if o == 0 else [b for b in ext if b['flags'] & 1]
                frags.append(mk(src=src, dest=PROBE, ts=ts, pay=pay[o:o + n], frag=(o, total), ext=fext,
                                crc=rnd.choice([0, 1, 2]), flags=F['DLVREP'] if j else 0, rpt='dtn://rpt/r'))
            base = '%s|%d|%d' % (src, ts[0], ts[1])
            orig[base] = {'len': total, 'dig': __import__('hashlib').sha256(pay).hexdigest()[:12]}
            bundles.append((style, frags))
        # arrival order: any permutation of all fragments of all bundles, with duplicates
        arrivals = [(bi, fi) for (bi, (_s, frags)) in enumerate(bundles) for fi in range(len(frags))]
        ndup = rnd.choice([0, 0, 1, 2])
        arrivals += [rnd.choice(arrivals) for _ in range(ndup)]
        rnd.shuffle(arrivals)
        drop = rnd.random() < 0.2      # sometimes one fragment never arrives
        if drop and len(arrivals) > 1:
            victim = rnd.choice(arrivals)
            arrivals = [a for a in arrivals if a != victim]
        steps = []
        ndamaged = 0
        for (bi, fi) in arrivals:
            octets = bundles[bi][1][fi]
            # now and then a copy damaged on the way (one bit inside a CRC-protected block) arrives before the
            # intact one: it is dropped and must not stand in the way of the intact copy
            if k % 3 == 0 and rnd.random() < 0.4:
                muts = corruptions(octets, rnd, False, 1)
                if muts:
                    steps.append(('recv', muts[0][0], {'note': 'b%d f%d damaged: %s' % (bi, fi, muts[0][1]), 'corrupt': True}))
                    ndamaged += 1
                    if rnd.random() < 0.5:
                        steps.append(('idle',))
            steps.append(('recv', octets, {'note': 'b%d f%d' % (bi, fi)}))
            if rnd.random() < 0.6:
                steps.append(('idle',))
        rx = [(PROBE, 'deliver')]
        tx = [('dtn://rpt/', 'dtn://rpt/', None)]
        traces.append(run({'rx_routes': rx, 'tx_routes': tx}, steps, scenario={'orig': orig}))
        metas.append({'bundles': [[s, len(f)] for (s, f) in bundles], 'arrivals': arrivals, 'dropped_one': drop,
                      'damaged_copies_first': ndamaged})
    # one bundle fragmented differently on two paths (different MTUs): fragments of both cuts arrive, some of each
    # are lost, and what arrives covers the payload - two fragments may start at the same offset with different lengths
    for (k, (total, a, b, order)) in enumerate(itertools.product((40, 9), (0.25, 0.5), (0.75,), range(4))):
        (ca, cb) = (max(1, int(total * a)), max(2, int(total * b)))
        pay = payload(total, 200 + k)
        src, ts = 'dtn://src/app', (9800 + k, 0)
        ext = [hop_count(2, 9, 1)]

        def fr(o, n, src=src, ts=ts, pay=pay, total=total, ext=ext, k=k):
            return mk(src=src, dest=PROBE, ts=ts, pay=pay[o:o + n], frag=(o, total), ext=ext if o == 0 else [],
                      crc=k % 3, rpt='dtn://rpt/r')
        arr = [[(0, ca), (0, cb), (cb, total - cb)], [(0, cb), (0, ca), (cb, total - cb)],
               [(cb, total - cb), (0, ca), (0, cb)], [(0, ca), (cb, total - cb), (ca, cb - ca), (0, cb)]][order]
        steps = []
        for (o, n) in arr:
            steps += [('recv', fr(o, n), {'note': 'cut [%d,%d)' % (o, o + n)}), ('idle',)]
        orig = {'%s|%d|%d' % (src, ts[0], ts[1]): {'len': total, 'dig': dig(pay)}}
        traces.append(run({'rx_routes': [(PROBE, 'deliver')], 'tx_routes': [('dtn://rpt/', 'dtn://rpt/', None)]}, steps,
                          scenario={'orig': orig}))
        metas.append({'bundles': [['two cuts', len(arr)]], 'arrivals': [list(x) for x in arr], 'dropped_one': True,
                      'damaged_copies_first': 0})
    # long histories: the repeats of a completed bundle's fragments arrive after many other bundles, and a bundle
    # of very many fragments arrives twice over (what has been seen must not be forgotten)
    for k in range(2 if tier == 'quick' else 12):
        orig = {}
        steps = []

        def frags_of(src, ts, total, npieces, salt):
            pay = payload(total, salt)
            size = -(-total // npieces)
            out = [mk(src=src, dest=PROBE, ts=ts, pay=pay[o:o + size], frag=(o, total), crc=1 + (salt % 2))
                   for o in range(0, total, size)]
            orig['%s|%d|%d' % (src, ts[0], ts[1])] = {'len': total, 'dig': dig(pay)}
            return out
        first = frags_of('dtn://src/app', (9900 + k, 0), 9, 3, k)
        for f in first:
            steps.append(('recv', f, {'note': 'first bundle'}))
        steps.append(('idle',))
        nother = rnd.choice([40, 70]) if k % 2 == 0 else 0
        for j in range(nother):
            for f in frags_of('dtn://src/other%d' % j, (9900 + k, 1 + j), 4, 2, k + j):
                steps.append(('recv', f, {'note': 'other %d' % j}))
            steps.append(('idle',))
        many = frags_of('dtn://src/many', (9950 + k, 0), 100 if k % 2 else 30, 100 if k % 2 else 30, k) if k % 2 else []
        for rnd_round in range(2):
            for f in many:
                steps.append(('recv', f, {'note': 'many round %d' % rnd_round}))
            steps.append(('idle',))
        for f in first:
            steps.append(('recv', f, {'note': 'first bundle again'}))
        steps.append(('idle',))
        rx = [(PROBE, 'deliver')]
        tx = [('dtn://rpt/', 'dtn://rpt/', None)]
        traces.append(run({'rx_routes': rx, 'tx_routes': tx}, steps, scenario={'orig': orig}))
        metas.append({'bundles': 'long history', 'other_bundles_between': nother, 'many_fragments_twice': len(many),
                      'arrivals': len(steps), 'dropped_one': False})
    return traces, metas

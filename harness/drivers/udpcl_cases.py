''' C13 scenarios: lengths x MTUs across CBOR head-size boundaries, every/sampled arrival permutation with
repeats and interleaving of transfers and peers, and datagrams composed of several messages / padding. '''
import itertools
import random
import signal
import sys

import boot  # noqa: F401
from harness.indep import bp7
from harness.drivers.udpcl_world import UdpclWorld, SENDER, dig


UDP_MAX = 65507


class Hang(BaseException):
    pass


def _alarm(_sig, _frm):
    raise Hang()


def bundle_like(n, salt):
    ''' A CBOR array (what UDPCL takes for a bundle) whose encoding is exactly n octets (n >= 3). '''
    body = bytes((i * 7 + salt) % 251 for i in range(max(0, n - 12)))
    enc = bp7.enc([salt % 24, body])
    while len(enc) < n:
        body += b'\x01'
        enc = bp7.enc([salt % 24, body])
    while len(enc) > n and body:
        body = body[:-1]
        enc = bp7.enc([salt % 24, body])
    return enc


def seg_datagram(xid, total, off, chunk):
    return bp7.enc({2: [xid, total, off, chunk]})


def run_case(case):
    signal.signal(signal.SIGVTALRM, _alarm)
    sys.unraisablehook = lambda *_a: None     # the watchdog may fire inside a context that swallows exceptions
    signal.setitimer(signal.ITIMER_VIRTUAL, 3.0, 1.0)
    world = UdpclWorld(case['mtu'], polling_ms=case.get('polling_ms'), recv_mtu=case.get('recv_mtu'))
    once = True
    try:
        xs = [world.request(bundle_like(n, k + case['salt'])) for (k, n) in enumerate(case['lengths'])]
        # (a polling sender never runs out of timers: a bounded stretch of virtual time is enough for the transfers)
        if case.get('polling_ms'):
            for horizon in (case['pump_ms'], 20000, 90000, 400000):
                world.pump_sender(max_ms=horizon)
                if {ev['x'] for ev in world.log if ev['a'] == 'SendDone'} >= set(xs):
                    break
        else:
            world.pump_sender()
        order = case['order'](world)
        seen = set()

        def own(part):
            nonlocal once
            for idx in part:
                if idx in seen:
                    once = False
                seen.add(idx)
                world.deliver(idx, fresh=idx not in seen)

        # datagrams of other peers arrive in between those of the sender (interleaved) or after them
        cut = len(order) // 2 if case.get('interleave') else len(order)
        own(order[:cut])
        foreign_steps = []
        for extra in case.get('foreign', []):
            (src, xid, data, cuts, perm) = extra
            key = 'f%s:%d:%d' % (src[0], src[1], xid)
            world.requests[key] = data
            world.by_dig[dig(data)] = key
            world.emit('Request', x=key, total=len(data), dig=dig(data))
            dgrams = [seg_datagram(xid, len(data), o, data[o:o + n]) for (o, n) in cuts]
            for (o, n) in cuts:
                world.emit('Piece', x=key, kind='seg', size=0, off=o, len=n, total=len(data), dataok=True, lensok=True,
                           idx=-1, last=False, reenc=True)
            for i in perm:
                foreign_steps.append((key, src, cuts[i], dgrams[i], len(data)))
        rest = list(order[cut:])
        while foreign_steps or rest:
            if foreign_steps:
                (key, src, (o, n), dgram, total) = foreign_steps.pop(0)
                world.emit('Arrive', x=key, off=o, len=n, total=total, fresh=True)
                world.inject(dgram, src)
            if rest:
                own([rest.pop(0)])
        for comp in case.get('composed', []):
            (parts, label) = comp
            data = b''
            for (kind, payload) in parts:
                if kind == 'bundle':
                    key = 'c%s' % dig(payload)
                    world.requests[key] = payload
                    world.by_dig[dig(payload)] = key
                    world.emit('Request', x=key, total=len(payload), dig=dig(payload))
                    world.emit('Piece', x=key, kind='whole', size=0, off=0, len=len(payload), total=len(payload),
                               dataok=True, lensok=True, idx=-1, last=False, reenc=True)
                    world.emit('Arrive', x=key, off=0, len=len(payload), total=len(payload), fresh=True)
                    data += payload
                elif kind == 'pad':
                    data += b'\x00' * payload
                elif kind == 'ext':
                    data += bp7.enc(payload)
            world.inject(data, SENDER)
    except Hang:
        world.emit('Hang', where='sender')
    finally:
        signal.setitimer(signal.ITIMER_VIRTUAL, 0)
    return world.finish(once and not case.get('drop'))


POLLING = [(1000, 'dtn://peer/'), (0, 'dtn://peer/'), (2 ** 31 - 1, 'ipn:5.0'), (2 ** 31, 'dtn://peer/'),
           (2 ** 40, 'x'), (5, 7), (5, None), (-1, 'dtn://peer/'), ('soon', 'dtn://peer/'), (3, b'\x01\x02'),
           (2 ** 64 - 1, ''), (1.5, 'dtn://peer/')]


def run_polling(val, nid):
    ''' A peer announces that it listens (SENDER_LISTEN [, SENDER_NODEID]); then a small bundle from the same peer. '''
    world = UdpclWorld(None, prop='C13')
    ext = {3: val}
    if nid is not None:
        ext[4] = nid
    try:
        world.inject(enc_any(ext), ('10.0.0.7', 4556))
    except Exception as err:       # pragma: no cover - the fake scheduler catches callback exceptions itself
        world.emit('Escape', exc=type(err).__name__)
    world.pump_sender()
    data = bundle_like(30, 77)
    world.requests['poll-bundle'] = data
    world.by_dig[dig(data)] = 'poll-bundle'
    world.emit('Request', x='poll-bundle', total=len(data), dig=dig(data))
    world.emit('Piece', x='poll-bundle', kind='whole', size=0, off=0, len=len(data), total=len(data), dataok=True,
               lensok=True, idx=-1, last=False, reenc=True)
    world.emit('Arrive', x='poll-bundle', off=0, len=len(data), total=len(data), fresh=True)
    world.inject(data, ('10.0.0.7', 4556))
    world.pump_sender()
    return world.finish(True)


def enc_any(val):
    ''' CBOR encoding including negative integers, floats and byte strings (the independent writer has no floats). '''
    import struct
    if isinstance(val, float):
        return b'\xfb' + struct.pack('>d', val)
    if isinstance(val, dict):
        return bp7.head(5, len(val)) + b''.join(enc_any(k) + enc_any(v) for (k, v) in val.items())
    return bp7.enc(val)


def executions(tier, seed):
    rnd = random.Random(seed * 43 + 13)
    cases = []
    lens = set([3, 23, 24, 25, 60, 255, 256, 257, 300, 1000])
    if tier == 'thorough':
        lens |= set(range(20, 30)) | set(range(250, 262)) | {65535, 65536, 65537, 70000}
    else:
        lens |= {65536}
    for n in sorted(lens):
        base = 16     # {2: [id, total, off, h'']} with one-octet heads
        for slack in (rnd.sample([1, 2, 9, 23, 24, 25, 100, 255, 256, 257, 2000], 3)):
            if (slack * 40) < n:
                slack = max(slack, n // 25)
            for mtu in (base + slack, n, n + 1, None):
                # a UDP datagram carries at most 65507 octets (IPv4): larger "MTUs" or unsegmented bundles are
                # not something the network under the agent can be asked to do
                if (mtu is None or mtu >= n) and n > UDP_MAX:
                    mtu = UDP_MAX - rnd.choice([0, 1, 300])
                cases.append({'lengths': [n], 'mtu': mtu, 'salt': len(cases), 'kind': 'sizes'})
    # dense windows where the per-segment data room crosses a CBOR head-width boundary (23/24, 255/256): the
    # envelope of the first transfer of a fresh agent (id 0) is computed with the independent encoder
    for (n, bound) in ((60, 24), (300, 24), (300, 256), (1000, 256)) + (((70000, 256), (65536, 24)) if tier == 'thorough' else ()):
        env = len(bp7.enc({2: [0, n, n, b'']})) - 1 + len(bp7.head(2, n))
        for d in range(-3, 4):
            if n // (bound + d) <= 400:
                cases.append({'lengths': [n], 'mtu': env + bound + d, 'salt': len(cases), 'kind': 'boundary'})
    out = []
    for c in cases:
        c['order'] = lambda w: list(range(len(w.pending)))
        out.append(c)
    # arrival orders: permutations, repeats, interleaving of two transfers
    for k in range(60 if tier == 'quick' else 1200):
        n1, n2 = rnd.choice([40, 70, 120]), rnd.choice([33, 90])
        mtu = rnd.choice([34, 40, 52])
        style = rnd.choice(['perm', 'perm', 'dups', 'drop'])

        def order(w, style=style, rnd=random.Random(k)):
            idx = list(range(len(w.pending)))
            rnd.shuffle(idx)
            if style == 'dups':
                idx += [rnd.choice(idx) for _ in range(rnd.randint(1, 3))]
                rnd.shuffle(idx)
            elif style == 'drop' and len(idx) > 1:
                idx = idx[:-1]
            return idx
        case = {'lengths': [n1, n2] if k % 2 else [n1], 'mtu': mtu, 'salt': 500 + k, 'order': order, 'kind': style,
                'drop': style == 'drop'}
        if k % 3 == 0:
            # a second peer re-using transfer id 0, uneven cut, own permutation
            data = bundle_like(50, 900 + k)
            cuts = [(0, 7), (7, 30), (37, 13)]
            perm = list(range(3))
            rnd.shuffle(perm)
            case['foreign'] = [(('10.0.0.3', 40002), 0, data, cuts, perm)]
        elif k % 3 == 1 and style != 'drop':
            # another peer on the sender's own address (other port) re-using transfer id 0, with the same or another
            # total length, its segments arriving in between those of the sender
            data = bundle_like(n1 if k % 2 else 50, 950 + k)
            third = max(1, len(data) // 3)
            cuts = [(0, third), (third, third), (2 * third, len(data) - 2 * third)]
            perm = list(range(3))
            rnd.shuffle(perm)
            case['foreign'] = [((SENDER[0], 40777), 0, data, cuts, perm)]
            case['interleave'] = True
        out.append(case)
    # several messages / padding in one datagram
    for k in range(12 if tier == 'quick' else 100):
        b1, b2 = bundle_like(rnd.choice([5, 30]), 700 + k), bundle_like(rnd.choice([9, 40]), 800 + k)
        comps = [
            ([('bundle', b1), ('bundle', b2)], 'two bundles'),
            ([('bundle', b1), ('pad', rnd.choice([1, 4, 30]))], 'bundle + padding'),
            ([('ext', {9: 1}), ('bundle', b2)], 'unknown extension + bundle'),
            ([('bundle', b1), ('ext', {9: [1, 2]}), ('pad', 2)], 'bundle + extension + padding'),
        ]
        out.append({'lengths': [], 'mtu': None, 'salt': k, 'order': lambda w: [], 'composed': [comps[k % 4]],
                    'kind': 'composed'})
    # a message that cannot be used (a segment contradicting the total length of its transfer, a transfer item with
    # too few fields) in front of a good bundle in the same datagram: the bundle is handled all the same
    for k in range(4):
        good = bundle_like([12, 40, 300, 9][k], 850 + k)
        first = ([('ext', {2: [7, 100, 0, b'a' * 10]})], 'first segment of a transfer')
        bad = [{2: [7, 101, 10, b'a' * 10]}, {2: [7, 100]}, {2: [7, 99, 90, b'b' * 9]}, {2: [7, 101, 10, b'a' * 10]}][k]
        parts = [('ext', bad), ('bundle', good)] + ([('pad', 3)] if k == 3 else [])
        out.append({'lengths': [], 'mtu': None, 'salt': k, 'order': lambda w: [],
                    'composed': [first, (parts, 'unusable segment + bundle')], 'kind': 'composed'})
    # a sender that also announces itself periodically (Sender Listen): its other messages go out through the
    # same paced transmit path while transfer datagrams are waiting for their turn
    for (k, (lengths, mtu, iv)) in enumerate([([2405], 300, 100), ([254], None, 15), ([900, 300], 120, 30),
                                              ([5000], 200, 10), ([70], 34, 15), ([1200, 40, 600], 100, 25)]
                                             + ([([20000], 500, 10), ([3000, 3000], 64, 40), ([65000], 1400, 20)]
                                                if tier == 'thorough' else [])):
        out.append({'lengths': lengths, 'mtu': mtu, 'salt': 40 + k, 'order': lambda w: list(range(len(w.pending))),
                    'kind': 'polling-sender', 'polling_ms': iv, 'pump_ms': 4000})
    # a receiver whose own (transmit) MTU is smaller than the datagrams its peers send: unsegmented bundles and
    # segments larger than anything it would send itself, from the sender and from a second peer
    for (k, (lengths, mtu, rmtu)) in enumerate([([300], None, 64), ([937, 40], None, 576), ([2500], 1200, 576),
                                                ([700, 90], 300, 100), ([65000], None, 1400), ([120], 100, 17)]):
        case = {'lengths': lengths, 'mtu': mtu, 'recv_mtu': rmtu, 'salt': 60 + k, 'kind': 'receiver-mtu',
                'order': (lambda w: list(range(len(w.pending)))) if k % 2 == 0 else (lambda w: list(reversed(range(len(w.pending)))))}
        if k % 3 == 0:
            data = bundle_like(rmtu * 3 + 5, 990 + k)
            half = len(data) // 2
            case['foreign'] = [(('10.0.0.3', 40002), 0, data, [(0, half), (half, len(data) - half)], [1, 0])]
        out.append(case)
    # MTU below the envelope (the sender cannot produce any segment)
    for mtu in ((5, 12) if tier == 'quick' else (1, 5, 12, 15, 16)):
        out.append({'lengths': [200], 'mtu': mtu, 'salt': 3, 'order': lambda w: list(range(len(w.pending))),
                    'kind': 'impossible'})
    traces, metas = [], []
    # peer discovery: extension maps announcing a listening sender, with boundary / ill-typed values; what the
    # agent signals (polling_received) must always fit its declared signature, and the queue listing must list
    # exactly what was announced and not yet popped
    for (val, nid) in POLLING:
        traces.append(run_polling(val, nid))
        metas.append({'kind': 'polling', 'lengths': [], 'mtu': None, 'foreign': True, 'composed': [],
                      'interval': repr(val), 'node_id': repr(nid)})
    for c in out:
        traces.append(run_case(c))
        metas.append({'kind': c['kind'], 'lengths': c['lengths'], 'mtu': c['mtu'], 'foreign': bool(c.get('foreign')),
                      'composed': [x[1] for x in c.get('composed', [])], 'sender_polls_ms': c.get('polling_ms', 0), 'receiver_mtu': c.get('recv_mtu') or 0})
    return traces, metas

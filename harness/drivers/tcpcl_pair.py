''' Scenarios with two real TCPCL endpoints: schedules (from TLC -simulate on the
implementation-shaped model, and from a seeded random generator) are replayed into the real
code; each execution is recorded as a trace for TLC to validate against TcpclObs.
'''
import json
import os
import random
import re

import boot  # noqa: F401
from harness import tracecheck
from harness.drivers.tcpcl_world import World, EndCfg

PROFILES = {
    # name: (seg_mru A, seg_mru P, seg_init A, seg_init P, length scale)
    'tiny': (1, 2, 2, 3, 1),
    'tiny2': (3, 1, 1, 4, 1),
    'small': (7, 64, 16, 5, 9),
    'chunk': (10 * 1024 * 1024, 4000, 102400, 102400, 7001),
    'large': (10 * 1024 * 1024, 10 * 1024 * 1024, 102400, 102400, 61000),
}


def payload(end, seq, length, seed):
    ''' Position-unique octets, different for every bundle of a run. '''
    base = (seed * 7 + seq * 31 + (3 if end == 'A' else 11)) % 251
    return bytes(((base + i * 13 + (i >> 8) * 5) % 251) for i in range(length))


def tlc_schedules(num, seed, allow_term=('A', 'P'), allow_close=(), depth=120, name='sched'):
    ''' Behaviours of the model as schedules (lists of dicts op/e/arg). '''
    cfg = '''SPECIFICATION SSpec
CONSTANTS
  Lens <- McLens
  MaxSend <- McMaxSend
  SegMru <- McSegMru
  SegInit <- McSegInit
  Quanta <- McQuanta
  AllowTerm = %s
  AllowClose = %s
  AllowPop = TRUE
  Adv = {}
  AdvMoves = {}
  MaxAdv = 0
  SegChoice = {}
  SegFloor = 0
  Dev = {"zero_length_stuck", "start_after_term", "close_drops_socket_buffer", "close_before_peer_term"}
  Enforced = {}
  Known = {}
  Diag = FALSE
  Depth = %d
CONSTRAINT SConstraint
CHECK_DEADLOCK FALSE
''' % (tracecheck.tla_set(allow_term), tracecheck.tla_set(allow_close), depth)
    res = tracecheck.model_check('MC_TcpclSched', cfg, name, workers=1,
                                 simulate='num=%d' % num, extra_args=['-depth', str(depth + 10), '-seed', str(seed)],
                                 timeout=600, heap='2g')
    out = res['out']
    scheds = []
    seen = set()
    for m in re.finditer(r'<<"SCHED", "(.*)">>', out):
        text = m.group(1).replace('\\"', '"')
        if text in seen:
            continue
        seen.add(text)
        scheds.append(json.loads(text))
    # keep only maximal behaviours (a behaviour printed at quiescence is a prefix-free leaf)
    keep = []
    texts = [json.dumps(s) for s in scheds]
    for (i, s) in enumerate(scheds):
        pre = texts[i][:-1]
        if any(j != i and texts[j].startswith(pre) and len(texts[j]) > len(texts[i]) for j in range(len(scheds))):
            continue
        keep.append(s)
    return keep, res


def random_schedule(rnd, nsend=(0, 4), term_p=0.5, close_p=0.1, steps=60):
    ''' A random schedule in the same vocabulary. '''
    sched = [{'op': 'start', 'e': e, 'arg': 0} for e in rnd.sample(['A', 'P'], 2)]
    budget = {e: rnd.randint(*nsend) for e in 'AP'}
    will_term = rnd.random() < term_p
    will_close = rnd.random() < close_p
    term_at = rnd.randint(0, steps)
    close_at = rnd.randint(0, steps)
    for k in range(steps):
        e = rnd.choice('AP')
        r = rnd.random()
        if will_term and k == term_at:
            sched.append({'op': 'term', 'e': e, 'arg': 0})
            if rnd.random() < 0.3:
                sched.append({'op': 'term', 'e': 'P' if e == 'A' else 'A', 'arg': 0})
        if will_close and k == close_at:
            sched.append({'op': 'close', 'e': e, 'arg': 0})
        if r < 0.15 and budget[e] > 0:
            budget[e] -= 1
            sched.append({'op': 'send', 'e': e, 'arg': rnd.choice([0, 1, 1, 2, 3, 5, 8])})
        elif r < 0.40:
            sched.append({'op': 'tx', 'e': e, 'arg': rnd.choice([0, 0, 1, 1, 2])})
        elif r < 0.65:
            sched.append({'op': 'rx', 'e': e, 'arg': rnd.choice([0, 0, 1])})
        elif r < 0.85:
            sched.append({'op': 'pq', 'e': e, 'arg': 0})
        elif r < 0.93:
            sched.append({'op': 'pop', 'e': e, 'arg': 0})
        else:
            sched.append({'op': 'query', 'e': e, 'arg': 0})
    return sched


def close_point_schedules(tier):
    ''' The connection goes away (close() by either user) at every point of a short exchange: session up, one or
    two bundles of length 0 / 1 / several segments queued by A, then j callbacks, then the close.  What was
    reported before and at the close must be true (a transfer reported 'success' is held by the receiver). '''
    est = [{'op': 'start', 'e': 'A', 'arg': 0}, {'op': 'start', 'e': 'P', 'arg': 0}]
    for _ in range(3):
        for (op, e) in (('tx', 'A'), ('rx', 'P'), ('tx', 'P'), ('rx', 'A')):
            est.append({'op': op, 'e': e, 'arg': 0})
    work = [('pq', 'A'), ('tx', 'A'), ('rx', 'P'), ('tx', 'P'), ('rx', 'A'), ('pq', 'A'), ('tx', 'A'), ('rx', 'P'),
            ('tx', 'P'), ('rx', 'A')]
    out = []
    for lens in ((0,), (1,), (3,), (0, 0), (1, 0), (0, 2)) if tier != 'thorough' else \
            ((0,), (1,), (3,), (5,), (0, 0), (1, 0), (0, 2), (0, 0, 0), (2, 0, 1)):
        for j in range(len(work) + 1):
            for closer in ('A', 'P'):
                sched = list(est) + [{'op': 'send', 'e': 'A', 'arg': n} for n in lens]
                sched += [{'op': op, 'e': e, 'arg': 0} for (op, e) in work[:j]]
                sched.append({'op': 'close', 'e': closer, 'arg': 0})
                out.append((sched, {'lengths': list(lens), 'callbacks_before_close': j, 'closed_by': closer}))
    return out


def run_schedule(sched, profile='tiny', seed=0, keepalive=(0, 0), idle=(0, 0), final_pop=True, eagain=False,
                 max_tail=4000):
    ''' Replay one schedule into two real endpoints.
    :return: (trace, stats) '''
    (mru_a, mru_p, init_a, init_p, scale) = PROFILES[profile]
    rnd = random.Random(seed * 1000003 + len(sched))
    world = World(EndCfg('dtn://node-a/', seg_mru=mru_a, seg_init=init_a, keepalive=keepalive[0], idle=idle[0]),
                  EndCfg('dtn://node-p/', seg_mru=mru_p, seg_init=init_p, keepalive=keepalive[1], idle=idle[1]))
    applied = skipped = 0
    nsent = {'A': 0, 'P': 0}
    started = set()
    for st in sched:
        op, e, arg = st['op'], st['e'], st['arg']
        done = True
        if op == 'start':
            if e in started:
                done = False
            else:
                started.add(e)
                world.start(e)
        elif e not in started:
            done = False
        elif op == 'send':
            nsent[e] += 1
            world.user_send(e, payload(e, nsent[e], arg * scale, seed))
        elif op == 'term':
            world.user_terminate(e)
        elif op == 'close':
            world.user_close(e)
        elif op == 'pop':
            done = world.user_pop(e) is not None
        elif op == 'query':
            world.query(e)
        elif op == 'pq':
            done = world.step(e, 'pq')
        elif op == 'tx':
            quota = None
            if arg == 1:
                quota = rnd.choice([1, 2, 3, 5, 6, 17, 18, 19, 30, 10240])
            elif arg == 2:
                quota = 0 if eagain else rnd.choice([1, 4])
            done = world.step(e, 'tx', quota)
        elif op == 'rx':
            quota = None if arg == 0 else rnd.choice([1, 2, 5, 6, 17, 18, 31])
            done = world.step(e, 'rx', quota)
        else:
            done = False
        if done:
            applied += 1
        else:
            skipped += 1
    for e in ('P', 'A'):
        if e not in started:
            world.start(e)
    steps, quiesced = world.run_fair(max_steps=max_tail, timers=False)
    if final_pop:
        world.run_fair(max_steps=200, timers=False, pop=True)
        steps2, quiesced = world.run_fair(max_steps=max_tail, timers=False)
    for e in ('A', 'P'):
        world.query(e)
    trace = world.finish({'kind': 'pair', 'quiesced': bool(quiesced), 'profile': profile})
    return trace, {'applied': applied, 'skipped': skipped, 'quiesced': quiesced, 'tail_steps': steps}


def summarize(trace):
    ''' A compact human-readable rendering of a trace (for evidence samples). '''
    out = []
    for ev in trace:
        a = ev['a']
        if a == 'Wire':
            m = ev['m']
            out.append('%s>%s(f%d,id%d,len%d)' % (ev['e'], m['t'], m['flags'], m['id'], m['len']))
        elif a in ('UserSend', 'UserPop'):
            out.append('%s:%s(id%d,len%d)' % (ev['e'], a, ev['i']['id'], ev['i']['len']))
        elif a in ('UserTerm', 'UserClose', 'Closed', 'Escape'):
            out.append('%s:%s%s' % (ev['e'], a, ('(' + ev['i'].get('exc', '') + ')') if a == 'Escape' else ''))
        elif a == 'Sig' and ev['n'].endswith('finished'):
            out.append('%s!%s(id%d,%s)' % (ev['e'], ev['n'], ev['vals']['bid'], ev['vals']['result']))
    return ' '.join(out)

''' Two real udpcl.agent.Agent objects (a sender and a receiver) over a simulated datagram
network.  The ``socket`` and ``time`` modules *inside udpcl.agent* are replaced by stand-ins
(fake UDP sockets writing into / reading from a bag of datagrams owned by the schedule; the
monotonic clock bound to the GLib shim's virtual time), nothing in /repo is modified.

Events (for specs/XferObs.tla): Request, Piece (datagram decoded by the independent CBOR
reader), SendDone, Arrive, Queued, Sig, Final.
'''
import hashlib
import socket as real_socket
import types

import boot  # noqa: F401
from gi.repository import GLib
import dbus
import dbus.bus

from harness.indep import bp7

import udpcl.agent as uagent
import udpcl.config as uconfig

SENDER = ('10.0.0.1', 40001)
RECEIVER = ('10.0.0.2', 4556)


def dig(data):
    return hashlib.sha256(bytes(data)).hexdigest()[:12]


class FakeUdpSocket(object):
    ''' UDP socket stand-in.  Outgoing datagrams go to ``net.outbox``; incoming ones are queued by the driver. '''
    _next_fd = [2000]

    def __init__(self, net, family=real_socket.AF_INET, stype=real_socket.SOCK_DGRAM, proto=0):
        self.net = net
        self.family = family
        self.type = stype
        self.proto = proto
        self.local = None
        self.inbox = []
        self.closed = False
        FakeUdpSocket._next_fd[0] += 1
        self._fd = FakeUdpSocket._next_fd[0]
        self.opts = []
        net.sockets.append(self)

    def setsockopt(self, *args):
        self.opts.append(args)

    def bind(self, addr):
        self.local = (addr[0], addr[1])

    def connect(self, addr):
        pass

    def getsockname(self):
        if self.local is None:
            self.local = (self.net.default_local[0], self.net.alloc_port())
        return self.local

    def fileno(self):
        return -1 if self.closed else self._fd

    def close(self):
        self.closed = True

    def sendmsg(self, bufs, ancdata=(), flags=0, addr=None):
        data = b''.join(bytes(b) for b in bufs)
        if len(data) > 65507:
            raise OSError(90, 'Message too long')
        self.net.on_send(self, data, addr)
        return len(data)

    def sendto(self, data, addr):
        self.net.on_send(self, bytes(data), addr)
        return len(data)

    def recvmsg(self, datalen, anclen=0):
        if not self.inbox:
            raise BlockingIOError(11, 'no datagram')
        (data, fromaddr) = self.inbox.pop(0)
        return (data[:datalen], [], 0, fromaddr)

    def verif_poll(self):
        return GLib.IO_IN if (self.inbox and not self.closed) else 0


class Net(object):
    ''' The datagram "network": what was sent, by whom, to whom. '''

    def __init__(self):
        self.sockets = []
        self.outbox = []       # (from sockname, to addr, data)
        self.default_local = SENDER
        self._port = 41000
        self.on_datagram = None

    def alloc_port(self):
        self._port += 1
        return self._port

    def on_send(self, sock, data, addr):
        src = sock.getsockname()
        self.outbox.append((src, (addr[0], addr[1]), data))
        if self.on_datagram:
            self.on_datagram(src, (addr[0], addr[1]), data)

    def make_socket_module(self):
        net = self
        mod = types.ModuleType('fake_socket')
        for name in dir(real_socket):
            if not name.startswith('__'):
                setattr(mod, name, getattr(real_socket, name))

        def socket_ctor(family=real_socket.AF_INET, stype=real_socket.SOCK_DGRAM, proto=0, fileno=None):
            return FakeUdpSocket(net, family, stype, proto)
        mod.socket = socket_ctor
        return mod


class _Time(object):
    @staticmethod
    def monotonic_ns():
        return GLib.SCHED.now_ms * 1000000

    @staticmethod
    def sleep(_secs):
        return None

    @staticmethod
    def time():
        return GLib.SCHED.now_ms / 1000.0


def read_datagram(data):
    ''' Independent decoding of one UDPCL datagram: a sequence of messages.
    :return: list of dicts kind = 'bundle' | 'ext' | 'padding' | 'bad' '''
    out = []
    off = 0
    while off < len(data):
        first = data[off]
        if first == 0x00:
            out.append({'kind': 'padding', 'len': len(data) - off})
            break
        try:
            item = bp7.read_item(data, off)
        except bp7.Malformed as err:
            out.append({'kind': 'bad', 'why': str(err)})
            break
        if item.mt == 4:
            out.append({'kind': 'bundle', 'data': bytes(data[off:item.end])})
        elif item.mt == 5:
            out.append({'kind': 'ext', 'map': bp7.to_py(item), 'size': item.end - off})
        else:
            out.append({'kind': 'bad', 'why': 'major type %d' % item.mt})
            break
        off = item.end
    return out


class UdpclWorld(object):

    def __init__(self, mtu, prop='C13', comp=False, polling_ms=None, recv_mtu=None):
        ''' comp: the two agents are the UDPCL daemons of two nodes of a composition (harness/drivers/comp_world.py):
        each sits at the well-known object path on its own bus and owns a bus name; send requests come from the
        BP agent of the sending node through the real adaptor, and the receiving node's adaptor pops the data. '''
        GLib.reset()
        dbus.bus.BusConnection.reset_all()
        dbus.RECORDER.clear()
        self.comp = comp
        self.log = []
        self.mtu = mtu
        self.net = Net()
        uagent.socket = self.net.make_socket_module()
        uagent.time = _Time
        dbus.RECORDER.sink = self._on_dbus
        self.requests = {}      # transfer key -> original data
        self.by_dig = {}
        self.agent_of = {}
        cfg_s = uconfig.Config()
        cfg_s.mtu_default = mtu
        cfg_s._bus_conn = dbus.bus.BusConnection('udpcl-s')
        if polling_ms:
            # the sender also announces itself periodically (Sender Listen): messages that are not transfers
            # share the paced transmit path with the transfer datagrams
            cfg_s.polling = [uconfig.PollConfig(address=RECEIVER[0], port=RECEIVER[1], interval_ms=int(polling_ms))]
        cfg_r = uconfig.Config()
        # (the receiver's own MTU limits what *it* sends; what it must accept is up to the peers)
        cfg_r.mtu_default = recv_mtu
        cfg_r._bus_conn = dbus.bus.BusConnection('udpcl-r')
        path_s = '/org/ietf/dtn/udpcl/Agent' if comp else '/org/ietf/dtn/udpcl/AgentS'
        path_r = '/org/ietf/dtn/udpcl/Agent' if comp else '/org/ietf/dtn/udpcl/AgentR'
        self.sender = uagent.Agent(cfg_s, bus_kwargs=dict(conn=cfg_s.bus_conn, object_path=path_s))
        self.net.default_local = RECEIVER
        self.receiver = uagent.Agent(cfg_r, bus_kwargs=dict(conn=cfg_r.bus_conn, object_path=path_r))
        self.bus_s, self.bus_r = cfg_s.bus_conn, cfg_r.bus_conn
        self.receiver.listen(RECEIVER[0], RECEIVER[1])
        self.rsock = [s for s in self.net.sockets if s.local == RECEIVER][0]
        self.net.default_local = SENDER
        self.agent_of[id(self.sender)] = 'S'
        self.agent_of[id(self.receiver)] = 'R'
        self.net.on_datagram = self._on_datagram
        self.emit('Scenario', s={'prop': prop, 'mtu': mtu if mtu is not None else -1, 'once': False, 'minenv': 0})
        self.pending = []       # datagrams emitted by the sender, not yet delivered (src, data, pieces)
        self.npieces = {}
        if comp:
            self._hook_for_composition()

    def _hook_for_composition(self):
        world = self
        send_inner = self.sender.send_bundle_data
        pop_inner = self.receiver.recv_bundle_pop_data

        def send_bundle_data(data, params):
            bid = send_inner(data, params)
            world.note_request(str(bid), bytes(data))
            return bid

        def recv_bundle_pop_data(bid):
            data = pop_inner(bid)
            world.emit('Queued', bid=str(bid), len=len(bytes(data)), dig=dig(bytes(data)))
            return data
        self.sender.send_bundle_data = send_bundle_data
        self.receiver.recv_bundle_pop_data = recv_bundle_pop_data

    def note_request(self, x, data):
        self.requests[x] = bytes(data)
        self.by_dig[dig(data)] = x
        self.emit('Request', x=x, total=len(data), dig=dig(data))
        env = len(bp7.enc({2: [int(x), len(data), len(data), b'']})) - 1 + len(bp7.head(2, len(data)))
        self.log[0]['s']['minenv'] = max(self.log[0]['s']['minenv'], env)

    def emit(self, a, **kw):
        ev = {'a': a}
        ev.update(kw)
        self.log.append(ev)

    def _on_dbus(self, ev):
        who = self.agent_of.get(id(ev.obj))
        if who is None or ev.kind != 'signal':
            return
        self.emit('Sig', who=who, n=ev.name, sigt=dbus.parse_signature(ev.sig), tags=list(ev.tags))
        if who == 'S' and ev.name == 'send_bundle_finished':
            self.emit('SendDone', x=str(ev.args[0]))
        if who == 'R' and ev.name == 'recv_bundle_finished' and not self.comp:
            bid = str(ev.args[0])
            self.emit('Announced', bid=bid)
            self.emit('RxQueue', ids=sorted(str(x) for x in self.receiver.recv_bundle_get_queue()))
            dbus.RECORDER.enabled = False
            try:
                data = bytes(self.receiver.recv_bundle_pop_data(bid))
            finally:
                dbus.RECORDER.enabled = True
            self.emit('Queued', bid=bid, len=len(data), dig=dig(data))
            self.emit('Popped', bid=bid)
            self.emit('RxQueue', ids=sorted(str(x) for x in self.receiver.recv_bundle_get_queue()))
            # popping the same transfer again must not return data a second time
            dbus.RECORDER.enabled = False
            try:
                again = self.receiver.recv_bundle_pop_data(bid)
                self.emit('PopAgain', bid=bid, gave_data=True, len=len(bytes(again)))
            except Exception:
                self.emit('PopAgain', bid=bid, gave_data=False, len=0)
            finally:
                dbus.RECORDER.enabled = True

    def _on_datagram(self, src, dst, data):
        if src[0] != SENDER[0]:
            return
        pieces = []
        for msg in read_datagram(data):
            if msg['kind'] == 'bundle':
                x = self.by_dig.get(dig(msg['data']))
                pieces.append({'x': x if x is not None else '?', 'kind': 'whole', 'off': 0, 'len': len(msg['data']),
                               'total': len(msg['data']), 'dataok': x is not None})
            elif msg['kind'] == 'ext' and 2 in msg['map']:
                val = msg['map'][2]
                ok = isinstance(val, list) and len(val) == 4 and isinstance(val[3], bytes)
                if not ok:
                    pieces.append({'x': '?', 'kind': 'seg', 'off': 0, 'len': 0, 'total': 0, 'dataok': False})
                    continue
                (xid, total, off, chunk) = val
                x = str(xid)
                orig = self.requests.get(x)
                pieces.append({'x': x, 'kind': 'seg', 'off': off, 'len': len(chunk), 'total': total,
                               'dataok': bool(orig is not None and orig[off:off + len(chunk)] == chunk)})
            elif msg['kind'] == 'bad':
                pieces.append({'x': '?', 'kind': 'bad', 'off': 0, 'len': 0, 'total': 0, 'dataok': False})
        for p in pieces:
            self.emit('Piece', x=p['x'], kind=p['kind'], size=len(data), off=p['off'], len=p['len'], total=p['total'],
                      dataok=p['dataok'], lensok=True, idx=-1, last=False, reenc=True)
        self.pending.append((src, data, pieces))

    # ------------------------------------------------------------------ driving
    def request(self, data):
        bid = self.sender.send_bundle_data(data, {'address': RECEIVER[0], 'port': RECEIVER[1]})
        x = str(bid)
        self.requests[x] = bytes(data)
        self.by_dig[dig(data)] = x
        self.emit('Request', x=x, total=len(data), dig=dig(data))
        # smallest MTU at which one octet of this transfer fits into a segment (independent encoder)
        env = len(bp7.enc({2: [int(bid), len(data), len(data), b'']})) - 1 + len(bp7.head(2, len(data)))
        self.log[0]['s']['minenv'] = max(self.log[0]['s']['minenv'], env)
        return x

    def pump_sender(self, max_ms=600000):
        ''' Run the sender's callbacks (queue processing, pacing timer) on the virtual clock. '''
        guard = 0
        while guard < 200000:
            guard += 1
            ready = [s for s in GLib.SCHED.runnable() if s.kind in ('idle', 'timeout')]
            if ready:
                GLib.SCHED.run(ready[0])
                continue
            nxt = GLib.SCHED.next_timeout()
            if nxt is None or nxt > max_ms:
                break
            GLib.SCHED.advance_to(nxt)

    def deliver(self, index, fresh=True):
        ''' Hand datagram ``index`` of the pending list to the receiver (it stays available for repeats). '''
        (src, data, pieces) = self.pending[index]
        for p in pieces:
            if p['kind'] in ('whole', 'seg'):
                self.emit('Arrive', x=p['x'], off=p['off'], len=p['len'], total=p['total'], fresh=fresh)
        self.inject(data, src)

    def inject(self, data, src=SENDER):
        self.rsock.inbox.append((bytes(data), src))
        for s in [s for s in GLib.SCHED.runnable() if s.kind == 'io']:
            GLib.SCHED.run(s)

    def finish(self, once):
        self.log[0]['s']['once'] = bool(once)
        dbus.RECORDER.sink = None
        self.emit('Final')
        return self.log

''' Two real btpu.agent.Agent objects over simulated raw Ethernet sockets, plus an independent
reader / writer of BTP-U message sets (layout: type octet, 4 flag bits + 20 length bits, hint
list, payload).  Events go to specs/XferObs.tla (prop C20) and specs/CodecTrace.tla. '''
import hashlib
import socket as real_socket
import struct
import types

import boot  # noqa: F401
from gi.repository import GLib
import dbus
import dbus.bus

import btpu.agent as bagent
import btpu.config as bconfig
import btpu.messages as bmsg

MAC_S = '02:00:00:00:00:01'
MAC_R = '02:00:00:00:00:02'
IFNAME = 'veth0'
ETHERTYPE = 0x88b5
T_PAD, T_BUNDLE, T_SEG, T_END, T_CANCEL = 1, 2, 3, 4, 5


def dig(data):
    return hashlib.sha256(bytes(data)).hexdigest()[:12]


# ------------------------------------------------------------------ independent codec
class BadFrame(Exception):
    pass


def write_message(mtype, payload=b'', hints=()):
    ''' hints: list of (type, value bytes) '''
    hb = b''
    for (i, (htype, hval)) in enumerate(hints):
        more = 1 if i < len(hints) - 1 else 0
        hb += bytes([(htype << 1) | more, len(hval)]) + hval
    length = len(hb) + len(payload)
    flags = 0x8 if hints else 0
    return bytes([mtype]) + ((flags << 20) | length).to_bytes(3, 'big') + hb + payload


def write_transfer(mtype, xfer, idx, data, hints=()):
    return write_message(mtype, struct.pack('!II', xfer, idx) + data, hints)


def read_message_set(data):
    ''' :return: list of dict(type, hints=[(type, value)], payload, declared, actual) ; trailing zero octet = padding '''
    out = []
    off = 0
    while off < len(data):
        if data[off] == 0:
            out.append({'type': 0, 'hints': [], 'payload': bytes(data[off:]), 'declared': len(data) - off,
                        'actual': len(data) - off})
            break
        if len(data) - off < 4:
            raise BadFrame('truncated message header')
        mtype = data[off]
        word = int.from_bytes(data[off + 1:off + 4], 'big')
        flags, length = word >> 20, word & 0xFFFFF
        body = data[off + 4:off + 4 + length]
        if len(body) != length:
            raise BadFrame('declared length %d exceeds frame' % length)
        hints = []
        pos = 0
        if flags & 0x8:
            while True:
                if pos + 2 > len(body):
                    raise BadFrame('truncated hint')
                hb, hlen = body[pos], body[pos + 1]
                hval = body[pos + 2:pos + 2 + hlen]
                if len(hval) != hlen:
                    raise BadFrame('truncated hint value')
                hints.append((hb >> 1, bytes(hval)))
                pos += 2 + hlen
                if not hb & 1:
                    break
        out.append({'type': mtype, 'hints': hints, 'payload': bytes(body[pos:]), 'declared': length,
                    'actual': len(body)})
        off += 4 + length
    return out


# ------------------------------------------------------------------ fake raw sockets
class FakePacketSocket(object):
    _fd = [3000]

    def __init__(self, net, family=0, stype=0, proto=0):
        self.net = net
        self.family = family
        self.local = (IFNAME, ETHERTYPE, 0, 1, b'\x00' * 6)
        self.inbox = []
        self.closed = False
        FakePacketSocket._fd[0] += 1
        self._fdno = FakePacketSocket._fd[0]
        net.sockets.append(self)

    def setsockopt(self, *args):
        pass

    def bind(self, addr):
        self.local = tuple(addr)

    def getsockname(self):
        return self.local

    def fileno(self):
        return -1 if self.closed else self._fdno

    def close(self):
        self.closed = True

    def send(self, frame):
        self.net.on_frame(self, bytes(frame))
        return len(frame)

    def recvfrom(self, _n):
        if not self.inbox:
            raise BlockingIOError(11, 'no frame')
        (frame, src_mac) = self.inbox.pop(0)
        return (frame, (IFNAME, ETHERTYPE, real_socket.PACKET_HOST, 1, src_mac))

    def verif_poll(self):
        return GLib.IO_IN if (self.inbox and not self.closed) else 0


class Net(object):
    def __init__(self):
        self.sockets = []
        self.on_frame_cb = None

    def on_frame(self, sock, frame):
        if self.on_frame_cb:
            self.on_frame_cb(sock, frame)

    def make_socket_module(self):
        net = self
        mod = types.ModuleType('fake_socket')
        for name in dir(real_socket):
            if not name.startswith('__'):
                setattr(mod, name, getattr(real_socket, name))
        mod.socket = lambda family=0, stype=0, proto=0, fileno=None: FakePacketSocket(net, family, stype, proto)
        mod.if_nametoindex = lambda name: 7
        return mod


class _NetIfAddr(object):
    def __init__(self, family, address):
        self.family = family
        self.address = address


class _Psutil(object):
    AF_LINK = 17
    current = MAC_S

    @classmethod
    def net_if_addrs(cls):
        return {IFNAME: [_NetIfAddr(cls.AF_LINK, cls.current)]}


def mac_bytes(text):
    return bytes(int(x, 16) for x in text.split(':'))


class BtpuWorld(object):

    def __init__(self, mtu, late_pop=False):
        ''' late_pop: the application leaves finished bundles in the receive queue until the end of the scenario
        (the queue then holds several at a time) instead of popping each when it is announced. '''
        self.late_pop = late_pop
        self.unpopped = []
        GLib.reset()
        dbus.bus.BusConnection.reset_all()
        dbus.RECORDER.clear()
        self.log = []
        self.mtu = mtu
        self.net = Net()
        bagent.socket = self.net.make_socket_module()
        bagent.psutil = _Psutil
        dbus.RECORDER.sink = self._on_dbus
        self.requests = {}
        self.by_dig = {}
        self.agent_of = {}
        cfg_s = bconfig.Config()
        cfg_s.mtu_default = mtu
        cfg_s._bus_conn = dbus.bus.BusConnection('btpu-s')
        cfg_r = bconfig.Config()
        cfg_r._bus_conn = dbus.bus.BusConnection('btpu-r')
        _Psutil.current = MAC_S
        self.sender = bagent.Agent(cfg_s, bus_kwargs=dict(conn=cfg_s.bus_conn, object_path='/org/ietf/dtn/btpu/AgentS'))
        _Psutil.current = MAC_R
        self.receiver = bagent.Agent(cfg_r, bus_kwargs=dict(conn=cfg_r.bus_conn, object_path='/org/ietf/dtn/btpu/AgentR'))
        self.receiver.listen(IFNAME)
        self.rsock = self.net.sockets[-1]
        _Psutil.current = MAC_S
        self.agent_of[id(self.sender)] = 'S'
        self.agent_of[id(self.receiver)] = 'R'
        self.net.on_frame_cb = self._on_frame
        self.emit('Scenario', s={'prop': 'C20', 'mtu': mtu if mtu is not None else -1, 'once': False, 'minenv': 18})
        self.pending = []
        self.offsets = {}

    def emit(self, a, **kw):
        ev = {'a': a}
        ev.update(kw)
        self.log.append(ev)

    def _on_dbus(self, ev):
        who = self.agent_of.get(id(ev.obj))
        if who is None or ev.kind != 'signal':
            return
        self.emit('Sig', who=who, n=ev.name, sigt=dbus.parse_signature(ev.sig), tags=list(ev.tags))
        if who == 'R' and ev.name == 'recv_bundle_finished':
            bid = str(ev.args[0])
            if self.late_pop:
                self.emit('Announced', bid=bid)
                self.unpopped.append(bid)
                self.emit('RxQueue', ids=self._rx_ids())
                return
            dbus.RECORDER.enabled = False
            try:
                data = bytes(self.receiver.recv_bundle_pop_data(bid))
            finally:
                dbus.RECORDER.enabled = True
            self.emit('Queued', bid=bid, len=len(data), dig=dig(data))

    def _rx_ids(self):
        dbus.RECORDER.enabled = False
        try:
            return sorted(str(x) for x in self.receiver.recv_bundle_get_queue())
        finally:
            dbus.RECORDER.enabled = True

    def pop_all(self):
        ''' The application now takes everything that was announced, in the order of the announcements. '''
        for bid in self.unpopped:
            dbus.RECORDER.enabled = False
            try:
                data = bytes(self.receiver.recv_bundle_pop_data(bid))
                self.emit('Queued', bid=bid, len=len(data), dig=dig(data))
                self.emit('Popped', bid=bid)
            except Exception:
                # announced, but no longer there
                self.emit('PopFailed', bid=bid)
            finally:
                dbus.RECORDER.enabled = True
            self.emit('RxQueue', ids=self._rx_ids())
        self.unpopped = []

    def describe(self, payload_octets, frame_size, xprefix=''):
        ''' Piece records for one Ethernet payload, decoded independently. '''
        pieces = []
        try:
            msgs = read_message_set(payload_octets)
        except BadFrame:
            return [{'x': '?', 'kind': 'bad', 'off': 0, 'len': 0, 'total': 0, 'dataok': False, 'idx': -1, 'last': False,
                     'lensok': False}]
        for m in msgs:
            lensok = m['declared'] == m['actual']
            if m['type'] == T_BUNDLE:
                x = self.by_dig.get(dig(m['payload']))
                pieces.append({'x': x if x is not None else '?', 'kind': 'whole', 'off': 0, 'len': len(m['payload']),
                               'total': len(m['payload']), 'dataok': x is not None, 'idx': -1, 'last': False,
                               'lensok': lensok})
            elif m['type'] in (T_SEG, T_END):
                (xfer, idx) = struct.unpack('!II', m['payload'][:8])
                chunk = m['payload'][8:]
                x = xprefix + str(xfer)
                orig = self.requests.get(x)
                # BTP-U segments carry an index, not an offset: the offset is where this index starts in the
                # original given the segments before it (kept per transfer in emission order)
                offs = self.offsets.setdefault(x, {})
                if idx not in offs:
                    offs[idx] = sum(n for (i, n) in self.offsets.setdefault(x + '#len', {}).items() if i < idx)
                    self.offsets[x + '#len'][idx] = len(chunk)
                off = offs[idx]
                total = len(orig) if orig is not None else -1
                hint_total = [int.from_bytes(v, 'big') for (t, v) in m['hints'] if t == 0]
                pieces.append({'x': x, 'kind': 'seg', 'off': off, 'len': len(chunk), 'total': total,
                               'dataok': bool(orig is not None and orig[off:off + len(chunk)] == chunk
                                              and all(h == total for h in hint_total)),
                               'idx': idx, 'last': m['type'] == T_END, 'lensok': lensok})
        return pieces

    def _on_frame(self, sock, frame):
        payload = frame[14:]
        pieces = self.describe(payload, len(payload))
        try:
            reenc = bytes(bmsg.MessageSet(payload)) == payload
        except Exception:
            reenc = False
        for p in pieces:
            self.emit('Piece', x=p['x'], kind=p['kind'], size=len(payload), off=p['off'], len=p['len'], total=p['total'],
                      dataok=p['dataok'], lensok=p['lensok'], idx=p['idx'], last=p['last'], reenc=reenc)
        self.pending.append((payload, pieces))

    def request(self, data):
        bid = self.sender.send_bundle_data(data, {'address': MAC_R, 'local_if': IFNAME})
        x = str(bid)
        self.requests[x] = bytes(data)
        self.by_dig[dig(data)] = x
        self.emit('Request', x=x, total=len(data), dig=dig(data))
        return x

    def pump_sender(self):
        for _ in range(10000):
            ready = [s for s in GLib.SCHED.runnable() if s.kind == 'idle']
            if not ready:
                break
            GLib.SCHED.run(ready[0])

    def deliver(self, index):
        (payload, pieces) = self.pending[index]
        for p in pieces:
            if p['kind'] in ('whole', 'seg'):
                self.emit('Arrive', x=p['x'], off=p['off'], len=p['len'], total=p['total'], fresh=True)
        self.inject(payload)

    def inject(self, payload, src=MAC_S):
        frame = mac_bytes(MAC_R) + mac_bytes(src) + struct.pack('!H', ETHERTYPE) + payload
        self.rsock.inbox.append((frame, mac_bytes(src)))
        for s in [s for s in GLib.SCHED.runnable() if s.kind == 'io']:
            (ran, exc) = GLib.SCHED.run(s)
            if exc is not None:
                self.emit('Escape', exc=type(exc).__name__)

    def finish(self, once):
        self.pop_all()
        self.log[0]['s']['once'] = bool(once)
        dbus.RECORDER.sink = None
        self.emit('Final')
        return self.log

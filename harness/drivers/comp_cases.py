''' Scenarios for the BP / UDPCL composition (harness/drivers/comp_world.py). '''
import random

import boot  # noqa: F401
from harness.drivers.comp_world import CompWorld, PROBE_Y
from harness.drivers import bp_cases as bc

F = bc.F


def run_case(sizes, bp_mtu, udp_mtu, order, dups, drop, seed, ext=False, crc=2):
    rnd = random.Random(seed)
    world = CompWorld(bp_mtu=bp_mtu, udp_mtu=udp_mtu)
    for (k, n) in enumerate(sizes):
        extb = [bc.hop_count(2, 30, 1, crc=crc), bc.unknown(3, 2, flags=1)] if ext else []
        octs = bc.mk(src='dtn://src/app', dest=PROBE_Y if k % 2 == 0 else 'dtn://y/other', rpt='dtn:none',
                     ts=(7000 + seed % 1000, k), pay=bc.payload(n, seed + k), crc=crc, ext=extb)
        world.inject(octs, note='bundle %d' % k)
    world.run(order=order, dups=dups, drop=drop, rnd=rnd)
    return world.finish()


def executions(tier, seed):
    ''' :return: (x traces, udpcl traces, y traces, metas) '''
    rnd = random.Random(seed * 71 + 5)
    cases = []
    for n in (0, 5, 300, 1000):
        for bp_mtu in (None, 230, 160):
            for udp_mtu in (None, 64, 150):
                cases.append(([n], bp_mtu, udp_mtu, 'fifo', 0, 0))
    for _ in range(40 if tier == 'quick' else 800):
        sizes = [rnd.choice([0, 1, 24, 300, 700, 2000]) for _ in range(rnd.choice([1, 1, 2, 3]))]
        cases.append((sizes, rnd.choice([None, 140, 230, 600]), rnd.choice([None, 40, 64, 100, 256, 280]),
                      rnd.choice(['fifo', 'reverse', 'shuffle', 'shuffle']), rnd.choice([0, 0, 1, 3]),
                      rnd.choice([0, 0, 0, 1])))
    xs, us, ys, metas = [], [], [], []
    for (i, (sizes, bp_mtu, udp_mtu, order, dups, drop)) in enumerate(cases):
        (tx, tu, ty) = run_case(sizes, bp_mtu, udp_mtu, order, dups, drop, seed * 100 + i, ext=bool(i % 3 == 0),
                                crc=(i % 3))
        xs.append(tx)
        us.append(tu)
        ys.append(ty)
        metas.append({'composition': 'bp-udpcl', 'payloads': sizes, 'bp_route_mtu': bp_mtu, 'udpcl_mtu': udp_mtu,
                      'datagram_order': order, 'repeats': dups, 'dropped': drop})
    return xs, us, ys, metas

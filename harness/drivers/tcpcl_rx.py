''' C07: one real endpoint fed an octet stream produced by the independent RFC 9174 encoder,
cut into reads in every way (short streams) or at boundary-directed places (long streams). '''
import itertools
import random

import boot  # noqa: F401
from harness.drivers.tcpcl_world import World, EndCfg
from harness.indep import tcpcl_codec as codec


def stream_catalogue(rnd, victim):
    ''' Yield (name, [message octets...]) for streams a well-behaved peer could send. '''
    ch = codec.enc_contact(0)
    init = codec.enc_sess_init(keepalive=0, seg_mru=1000, xfer_mru=2 ** 40, node_id='dtn://peer/')
    init_ext = codec.enc_sess_init(keepalive=3, seg_mru=2 ** 64 - 1, xfer_mru=2 ** 64 - 1, node_id='dtn://péer/',
                                   ext=[{'flags': 0, 'type': 0x99, 'value': b'\x01\x02\x03'}])
    ka = codec.enc_keepalive()

    def xfer(tid, data, seg, ext_extra=()):
        out = []
        pieces = [data[i:i + seg] for i in range(0, len(data), seg)] or [b'']
        for (k, piece) in enumerate(pieces):
            flags = (codec.SEG_START if k == 0 else 0) | (codec.SEG_END if k == len(pieces) - 1 else 0)
            ext = ([codec.ext_total_length(len(data))] + list(ext_extra)) if k == 0 else ()
            out.append(codec.enc_segment(tid, piece, flags, ext))
        return out

    yield 'ch_only', [ch]
    yield 'ch_ka', [ch, ka, ka]
    yield 'ch_ka8', [ch] + [ka] * 8
    yield 'ch_init', [ch, init]
    yield 'ch_init_ka', [ch, init, ka, ka, ka]
    yield 'ch_initext_ka', [ch, init_ext, ka]
    yield 'xfer_empty', [ch, init] + xfer(1, b'', 10) + [ka]
    yield 'xfer_1', [ch, init] + xfer(1, b'Z', 10)
    yield 'xfer_3x1', [ch, init] + xfer(7, b'abc', 1) + [ka]
    yield 'xfer_two', [ch, init] + xfer(1, b'hello', 2) + [ka] + xfer(2, b'wo', 5)
    yield 'xfer_unknown_ext', [ch, init] + xfer(3, b'data!', 4, [{'flags': 0, 'type': 0x77, 'value': b'xy'}])
    yield 'term', [ch, init, ka, codec.enc_sess_term(0, 0)]
    yield 'reject', [ch, init, codec.enc_reject(4, 2), ka]
    big = bytes((i * 7 + 3) % 251 for i in range(25000))
    yield 'xfer_big', [ch, init] + xfer(1, big, 9000) + [ka]
    yield 'xfer_chunkedge', [ch, init] + xfer(1, big[:10240 - 26 - len(init) - len(ch)], 20000) + [ka, ka]


def all_cuts(n):
    ''' Every composition of n: lists of chunk sizes. '''
    for mask in range(1 << (n - 1)):
        sizes = []
        cur = 1
        for bit in range(n - 1):
            if mask >> bit & 1:
                sizes.append(cur)
                cur = 1
            else:
                cur += 1
        sizes.append(cur)
        yield sizes


def directed_cuts(msgs, rnd, limit):
    ''' Boundary-directed ways to cut a long stream: around every message boundary (+-1), inside
    fixed headers, one-octet drip over the first 80 octets, CHUNK_SIZE edges, and random cuts. '''
    n = sum(len(m) for m in msgs)
    bounds = []
    off = 0
    for m in msgs:
        off += len(m)
        bounds.append(off)
    out = [[n]]
    points = set()
    for b in bounds:
        for d in (-2, -1, 0, 1, 2):
            if 0 < b + d < n:
                points.add(b + d)
    pts = sorted(points)

    def from_points(ps):
        ps = sorted(set(p for p in ps if 0 < p < n))
        sizes = []
        last = 0
        for p in ps:
            sizes.append(p - last)
            last = p
        sizes.append(n - last)
        return sizes

    for p in pts:
        out.append(from_points([p]))
    out.append(from_points(bounds[:-1]))
    out.append(from_points([b - 1 for b in bounds]))
    out.append(from_points([b + 1 for b in bounds]))
    out.append(from_points(list(range(1, min(n, 80)))))
    out.append(from_points([10240, 20480]))
    out.append(from_points([10239, 10241]))
    while len(out) < limit:
        k = rnd.randint(1, 12)
        out.append(from_points(rnd.sample(range(1, n), min(k, n - 1)) if n > 1 else []))
    return out[:limit]


def run_stream(msgs, sizes, victim='P', name=''):
    ''' Feed the stream to one real endpoint in the given chunk sizes; return the trace. '''
    peer = 'A' if victim == 'P' else 'P'
    cfg_v = EndCfg('dtn://victim/', seg_mru=5000)
    cfg_o = EndCfg('dtn://peer/')
    world = World(cfg_v if victim == 'A' else cfg_o, cfg_v if victim == 'P' else cfg_o, auto_deliver=False,
                  only=victim)
    world.start(victim)
    data = b''.join(msgs)
    world.sock[peer].send(data)

    def settle():
        for _ in range(50):
            ran = False
            for which in ('tx', 'pq'):
                if world.step(victim, which):
                    ran = True
            if not ran:
                break

    settle()
    for k in sizes:
        world.net_deliver(peer, k)
        world.step(victim, 'rx')
        settle()
    trace = world.finish({'kind': 'rx', 'real': [victim], 'quiesced': True, 'cooperative': False, 'stream': name})
    return trace


def executions(tier, seed):
    rnd = random.Random(seed * 31337 + 5)
    traces, metas = [], []
    exhaustive_streams = 0
    per_long = 40 if tier == 'quick' else 400
    for victim in ('P', 'A'):
        for (name, msgs) in stream_catalogue(rnd, victim):
            n = sum(len(m) for m in msgs)
            if n <= (11 if tier == 'quick' else 14):
                cutsets = list(all_cuts(n))
                exhaustive_streams += 1
                kind = 'all-cuts'
            else:
                cutsets = directed_cuts(msgs, rnd, per_long if n < 5000 else max(12, per_long // 4))
                kind = 'directed'
            for sizes in cutsets:
                traces.append(run_stream(msgs, sizes, victim, name))
                metas.append({'victim': victim, 'stream': name, 'octets': n, 'cuts': kind,
                              'chunks': sizes if len(sizes) <= 24 else sizes[:24] + ['...']})
    return traces, metas, exhaustive_streams

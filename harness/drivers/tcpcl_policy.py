''' C15: TLS / peer-authentication decision table on two real endpoints with a fake TLS layer
(handshake succeeds or fails) and real X.509 certificates carrying any mix of IP / DNS / URI SANs. '''
import datetime
import ipaddress
import itertools
import random

import boot  # noqa: F401
from cryptography import x509
from cryptography.hazmat.primitives import hashes, serialization
from cryptography.hazmat.primitives.asymmetric import ec
from cryptography.x509.oid import NameOID

from harness.sim import net
from harness.drivers.tcpcl_world import World, EndCfg

NODE = {'A': 'dtn://node-a/', 'P': 'dtn://node-p/'}
ADDR = {'A': '10.0.0.1', 'P': '10.0.0.2'}
DNSNAME = {'A': 'node-a.example', 'P': 'node-p.example'}
CLASSES = ('absent', 'match', 'mismatch')
REQS = ('none', 'yes', 'no')

_KEY = [None]
_CERTS = {}


def cert_for(owner, ip, dns, node, extra=0):
    ''' DER certificate of ``owner`` whose SANs are, per kind, absent / matching / not matching. '''
    key = (owner, ip, dns, node, extra)
    if key in _CERTS:
        return _CERTS[key]
    if _KEY[0] is None:
        _KEY[0] = ec.generate_private_key(ec.SECP256R1())
    sans = []
    if ip == 'match':
        if extra:
            sans.append(x509.IPAddress(ipaddress.ip_address('192.0.2.77')))
        sans.append(x509.IPAddress(ipaddress.ip_address(ADDR[owner])))
    elif ip == 'mismatch':
        sans.append(x509.IPAddress(ipaddress.ip_address('192.0.2.99')))
    if dns == 'match':
        sans.append(x509.DNSName(DNSNAME[owner]))
        if extra:
            sans.append(x509.DNSName('alias.example'))
    elif dns == 'mismatch':
        sans.append(x509.DNSName('other.example'))
    if node == 'match':
        sans.append(x509.UniformResourceIdentifier(NODE[owner]))
    elif node == 'mismatch':
        sans.append(x509.UniformResourceIdentifier('dtn://someone-else/'))
    name = x509.Name([x509.NameAttribute(NameOID.COMMON_NAME, 'verif-' + owner)])
    now = datetime.datetime(2025, 1, 1)
    builder = x509.CertificateBuilder().subject_name(name).issuer_name(name).public_key(_KEY[0].public_key()) \
        .serial_number(1000 + len(_CERTS)).not_valid_before(now).not_valid_after(now + datetime.timedelta(days=3650))
    if sans:
        builder = builder.add_extension(x509.SubjectAlternativeName(sans), critical=False)
    cert = builder.sign(_KEY[0], hashes.SHA256())
    der = cert.public_bytes(serialization.Encoding.DER)
    _CERTS[key] = der
    return der


def req_val(req):
    return {'none': None, 'yes': True, 'no': False}[req]


def run_case(case, seed=0):
    ''' case: dict with per-end settings and what each end's certificate looks like to the other. '''
    cfgs = {}
    for e in 'AP':
        c = case[e]
        cfgs[e] = EndCfg(NODE[e], tls_enable=c['canTls'], require_tls=req_val(c['req']),
                         require_host_authn=c['reqHost'], require_node_authn=c['reqNode'])
    tls = {}
    for e in 'AP':
        o = 'P' if e == 'A' else 'A'
        # the certificate e sees is the peer's; its SAN classes are given from e's point of view
        der = cert_for(o, case[e]['ip'], case[e]['dns'], case[e]['node'], extra=(seed % 2))
        tls[e] = net.FakeSslContext(handshake_ok=case['hsOk'], peer_cert_der=der)
    peer_name = DNSNAME['P'] if case['byName'] else None
    world = World(cfgs['A'], cfgs['P'], tls=tls, peer_name=peer_name)
    for e in 'AP':
        mask = case.get('rsv', {}).get(e, 0)
        if mask:
            # this end's contact header carries reserved flag bits as well (a receiver must ignore them)
            def xform(off, chunk, mask=mask):
                if off <= 5 < off + len(chunk):
                    chunk = bytearray(chunk)
                    chunk[5 - off] |= mask
                    chunk = bytes(chunk)
                return chunk
            world.sock[e].xform = xform
    world.start('P')
    world.start('A')
    world.run_fair(timers=False, max_steps=600)
    for e in 'AP':
        world.query(e)
    pol = {}
    for e in 'AP':
        o = 'P' if e == 'A' else 'A'
        c = case[e]
        pol[e] = {'canTls': c['canTls'], 'req': c['req'], 'reqHost': c['reqHost'], 'reqNode': c['reqNode'],
                  'passive': e == 'P', 'byName': bool(case['byName']), 'peerCanTls': case[o]['canTls'],
                  'hsOk': bool(case['hsOk']), 'ip': c['ip'], 'dns': c['dns'], 'node': c['node']}
    return world.finish({'kind': 'policy', 'pol': pol, 'quiesced': True})


PERMISSIVE = {'canTls': True, 'req': 'none', 'reqHost': False, 'reqNode': False, 'ip': 'match', 'dns': 'match',
              'node': 'match'}


def table(tier, seed):
    ''' Rows of the decision table.  One end sweeps its whole sub-table while the other is permissive
    (its view of the peer certificate matching); then random combinations of two strict ends. '''
    rnd = random.Random(seed * 3 + 11)
    rows = []
    for e in 'AP':
        o = 'P' if e == 'A' else 'A'
        sub = list(itertools.product((True, False), REQS, (False, True), (False, True), CLASSES, CLASSES, CLASSES,
                                     (True, False), (True, False), (True, False)))
        # the sub-table in which TLS is actually established carries the authentication decisions
        tls_rows = [r for r in sub if r[0] and r[7] and r[8] and r[1] != 'no']
        if tier == 'quick':
            sub = rnd.sample(sub, 110) + rnd.sample(tls_rows, 200)
        for (can, req, rh, rn, ip, dns, node, peer_can, hs, by_name) in sub:
            case = {e: {'canTls': can, 'req': req, 'reqHost': rh, 'reqNode': rn, 'ip': ip, 'dns': dns, 'node': node},
                    o: dict(PERMISSIVE, canTls=peer_can), 'hsOk': hs, 'byName': by_name}
            rows.append(case)
    # reserved contact-header flag bits set by one end, over the rows in which TLS use is decided
    for (e, mask) in itertools.product('AP', (0x02, 0x80, 0xFE)):
        o = 'P' if e == 'A' else 'A'
        for (can_e, can_o, req_o) in itertools.product((True, False), (True, False), REQS):
            if tier == 'quick' and mask == 0x80 and req_o == 'no':
                continue
            rows.append({e: dict(PERMISSIVE, canTls=can_e), o: dict(PERMISSIVE, canTls=can_o, req=req_o),
                         'hsOk': True, 'byName': True, 'rsv': {e: mask}})
    nrand = 120 if tier == 'quick' else 4000
    for _ in range(nrand):
        case = {'hsOk': rnd.random() < 0.8, 'byName': rnd.random() < 0.5}
        for e in 'AP':
            case[e] = {'canTls': rnd.random() < 0.8, 'req': rnd.choice(REQS), 'reqHost': rnd.random() < 0.5,
                       'reqNode': rnd.random() < 0.5, 'ip': rnd.choice(CLASSES), 'dns': rnd.choice(CLASSES),
                       'node': rnd.choice(CLASSES)}
        rows.append(case)
    return rows


def executions(tier, seed):
    traces, metas = [], []
    for (i, case) in enumerate(table(tier, seed)):
        traces.append(run_case(case, seed=seed + i))
        metas.append(case)
    return traces, metas

''' Two real ``tcpcl.session.ContactHandler`` objects joined by a simulated TCP connection,
stepped by an explicit schedule under the deterministic GLib shim, with every observable
effect recorded as a flat list of events (the trace that TLC validates).

Observation points (all outside /repo):

* octets accepted by each fake socket, parsed by the *independent* RFC 9174 decoder
  (``Wire`` events: one per message whose last octet reached the wire);
* octets handed to each endpoint by ``recv`` (``Rx``), and each invocation of the
  session's ``recv_message`` (``Handle``; the message content is what the independent
  decoder finds at that position of the peer's octet stream);
* D-Bus signals and method returns from the dbus shim (``Sig`` / ``Ret``);
* socket close (``Closed``), exceptions escaping a callback (``Escape``);
* at the end of every callback a ``View``: state string, idle indication, both queue
  listings, receive-buffer occupancy (public methods only).
'''
import datetime
import io
import json
import time as _time

import boot  # noqa: F401
from gi.repository import GLib
import dbus
import dbus.bus

from harness.sim import net
from harness.indep import tcpcl_codec as codec

import tcpcl.session as session
import tcpcl.config as tconfig
from tcpcl import messages as rmsg

BIG = 2 ** 31 - 1
ENDS = ('A', 'P')


def clampi(val):
    if val is None:
        return -1
    return int(val) if -BIG <= val <= BIG else (BIG if val > 0 else -BIG)


def msg_record(m, payload_tok=None):
    ''' Uniform, TLC-friendly record of an independently decoded message. '''
    t = m['t']
    rec = {
        't': t, 'flags': 0, 'id': 0, 'len': 0, 'reason': 0, 'ka': 0, 'mru': 0, 'mrucls': 'na',
        'xmrucls': 'na', 'total': -1, 'nid': '', 'size': clampi(m.get('size') or 0), 'rej': 0,
        'ver': 0, 'magicok': True, 'nexts': 0, 'typ': 0, 'tok': -1,
    }
    if t == 'CH':
        rec.update(flags=m['flags'], ver=m['version'], magicok=(m['magic'] == codec.MAGIC))
    elif t == 'INIT':
        rec.update(ka=m['keepalive'], mru=clampi(m['seg_mru']), mrucls=dbus.intclass(m['seg_mru']),
                   xmrucls=dbus.intclass(m['xfer_mru']), nid=m['node_id'], nexts=len(m['ext']))
    elif t == 'SEG':
        tot = codec.total_length_of(m)
        rec.update(flags=m['flags'], id=clampi(m['id']), len=clampi(m['len']),
                   total=(-1 if tot is None else clampi(tot)), nexts=len(m['ext']),
                   tok=(m['data'][0] if m['data'] else -1))
    elif t == 'ACK':
        rec.update(flags=m['flags'], id=clampi(m['id']), len=clampi(m['len']))
    elif t == 'REFUSE':
        rec.update(reason=m['reason'], id=clampi(m['id']))
    elif t == 'TERM':
        rec.update(flags=m['flags'], reason=m['reason'])
    elif t == 'REJECT':
        rec.update(reason=m['reason'], rej=m['rej_type'])
    elif t == 'UNKNOWN':
        rec.update(typ=m['type'])
    return rec


class EndCfg(object):
    ''' Per-end configuration of a scenario (plain data). '''

    def __init__(self, node_id, keepalive=0, idle=0, seg_mru=10 * 1024 * 1024, seg_init=102400,
                 tls_enable=False, require_tls=None, require_host_authn=False, require_node_authn=False,
                 modulate=None, enable_test=()):
        self.node_id = node_id
        self.keepalive = keepalive
        self.idle = idle
        self.seg_mru = seg_mru
        self.seg_init = seg_init
        self.tls_enable = tls_enable
        self.require_tls = require_tls
        self.require_host_authn = require_host_authn
        self.require_node_authn = require_node_authn
        self.modulate = modulate
        self.enable_test = set(enable_test)

    def to_config(self, bus_key):
        cfg = tconfig.Config()
        cfg.node_id = self.node_id
        cfg.keepalive_time = self.keepalive
        cfg.idle_time = self.idle
        cfg.segment_size_mru = self.seg_mru
        cfg.segment_size_tx_initial = self.seg_init
        cfg.tls_enable = self.tls_enable
        cfg.require_tls = self.require_tls
        cfg.require_host_authn = self.require_host_authn
        cfg.require_node_authn = self.require_node_authn
        cfg.modulate_target_ack_time = self.modulate
        cfg.enable_test = set(self.enable_test)
        cfg._bus_conn = dbus.bus.BusConnection(bus_key)
        return cfg


class _VirtualDatetime(datetime.datetime):
    ''' ``datetime.datetime.now`` bound to the scheduler's virtual clock. '''
    _base = datetime.datetime(2025, 1, 1, tzinfo=datetime.timezone.utc)

    @classmethod
    def now(cls, tz=None):
        val = cls._base + datetime.timedelta(milliseconds=GLib.SCHED.now_ms)
        if tz is None:
            return val.replace(tzinfo=None)
        return val.astimezone(tz)


class _VirtualDatetimeModule(object):
    ''' Stand-in for the ``datetime`` module inside tcpcl.session only. '''
    datetime = _VirtualDatetime
    timezone = _VirtualDatetime._base.tzinfo.__class__
    timedelta = _VirtualDatetime.resolution.__class__


class World(object):
    ''' One connection between an active end 'A' and a passive end 'P'. '''

    def __init__(self, cfg_a, cfg_p, auto_deliver=True, peer_name=None, tls=None, only=None):
        ''' :param tls: None or dict(A=FakeSslContext, P=FakeSslContext)
        :param only: None for two real ends, or 'A'/'P' to create just that real end (the other
            side of the socket pair is then driven by the caller as an adversary).
        '''
        GLib.reset()
        dbus.bus.BusConnection.reset_all()
        dbus.RECORDER.clear()
        self.log = []
        self.seq = 0
        self.cfg = {'A': cfg_a, 'P': cfg_p}
        sa, sp = net.socketpair(auto_deliver=auto_deliver)
        self.sock = {'A': sa, 'P': sp}
        self.hdl = {}
        self.end_of = {}
        self.parsed = {'A': 0, 'P': 0}      # number of messages of each outgoing stream already logged
        self.parsed_off = {'A': 0, 'P': 0}  # octet offset up to which the stream is parsed
        self.stream_msgs = {'A': [], 'P': []}   # independently decoded messages per direction
        self.wire_status = {'A': 'complete', 'P': 'complete'}
        self.handled = {'A': 0, 'P': 0}
        self.sent_payload = {'A': {}, 'P': {}}   # id -> bytes queued by the user on that end
        self.sent_order = {'A': [], 'P': []}
        self.in_cb = None
        self.cur_cb = None
        self.n_subst = 0
        self.tick_ms = 0   # virtual time that passes after every callback (adaptive-sizing runs)
        self.real_ends = ENDS if only is None else (only,)
        session.datetime = _VirtualDatetimeModule
        dbus.RECORDER.sink = self._on_dbus

        for end in ENDS:
            sock = self.sock[end]
            sock.on_send = self._on_send
            sock.on_recv = self._on_recv
            sock.on_close = self._on_close
        for end in self.real_ends:
            conf = self.cfg[end].to_config('bus-' + end)
            if tls and tls.get(end) is not None:
                ctx = tls[end]
                conf.get_ssl_context = (lambda c=ctx: c)
            sock = self.sock[end]
            if end == 'A':
                toaddr = (peer_name if peer_name else sock.getpeername()[0], sock.getpeername()[1])
                kw = dict(config=conf, sock=sock, toaddr=toaddr)
            else:
                kw = dict(config=conf, sock=sock, fromaddr=sock.getpeername())
            hdl = session.ContactHandler(
                hdl_kwargs=kw,
                bus_kwargs=dict(conn=conf.bus_conn, object_path='/org/ietf/dtn/tcpcl/Contact%s' % end))
            self.hdl[end] = hdl
            self.end_of[id(hdl)] = end
            self._wrap_recv_message(end, hdl)

    # ------------------------------------------------------------------ logging
    def emit(self, a, e, n='', m=None, i=None, **extra):
        self.seq += 1
        if a == 'Cb':
            self.cur_cb = n
        elif a != 'View':
            self.n_subst += 1
        ev = {'a': a, 'e': e, 'n': n, 'seq': self.seq, 't': clampi(GLib.SCHED.now_ms)}
        if m is not None:
            ev['m'] = m
        if i is not None:
            ev['i'] = i
        ev.update(extra)
        self.log.append(ev)
        return ev

    def _end_of_obj(self, obj):
        return self.end_of.get(id(obj))

    USER_CBS = ('send', 'pop', 'query', 'terminate', 'close')

    def _on_dbus(self, ev):
        end = self._end_of_obj(ev.obj)
        if end is None:
            return
        rec = {'sig': ev.sig, 'sigt': dbus.parse_signature(ev.sig), 'tags': list(ev.tags), 'nargs': len(ev.args)}
        if ev.kind == 'signal':
            vals = {'bid': -2, 'len': -1, 'result': '', 'state': ''}
            if ev.name.startswith('send_bundle_') or ev.name.startswith('recv_bundle_'):
                if len(ev.args) > 0:
                    try:
                        vals['bid'] = clampi(int(str(ev.args[0])))
                    except ValueError:
                        vals['bid'] = -2
                ln = ev.args[1] if len(ev.args) > 1 else -1
                vals['len'] = clampi(ln) if isinstance(ln, int) and not isinstance(ln, bool) else -1
                vals['result'] = str(ev.args[2]) if len(ev.args) > 2 else ''
            elif ev.name == 'session_state_changed':
                vals['state'] = str(ev.args[0])
            self.emit('Sig', end, ev.name, i=rec, vals=vals)
        else:
            # returns of exported methods: only those made on behalf of a bus caller
            if self.cur_cb not in self.USER_CBS:
                return
            extra = {}
            if ev.name == 'get_session_parameters' and isinstance(ev.args[0], dict):
                par = ev.args[0]

                def ival(key):
                    val = par.get(key)
                    return (clampi(val), dbus.intclass(int(val))) if isinstance(val, int) else (-1, 'na')
                extra['pv'] = {
                    'keepalive': ival('keepalive')[0],
                    'peer_nodeid': str(par.get('peer_nodeid', '')),
                    'segmru': ival('peer_segment_mru')[0], 'segmrucls': ival('peer_segment_mru')[1],
                    'xfermrucls': ival('peer_transfer_mru')[1],
                    'authn_nodeid': str(par.get('authn_nodeid', '')),
                    'authn_dnsid': str(par.get('authn_dnsid', '')),
                    'authn_ipaddrid': str(par.get('authn_ipaddrid', '')),
                }
            self.emit('Ret', end, ev.name, i=rec, **extra)

    def _on_send(self, sock, nbytes):
        end = sock.name
        self.emit('Tx', end, i={'k': clampi(nbytes), 'off': clampi(len(sock.sent_log))})
        self._scan_wire(end)

    def _scan_wire(self, end):
        if self.wire_status[end] == 'stuck':
            return
        buf = bytes(self.sock[end].sent_log)
        msgs, consumed, status = codec.parse_stream(buf)
        self.wire_status[end] = status
        for m in msgs[self.parsed[end]:]:
            self.stream_msgs[end].append(m)
            self.emit('Wire', end, m['t'], m=msg_record(m))
        self.parsed[end] = len(msgs)
        self.parsed_off[end] = consumed
        if status in ('unknown', 'malformed'):
            if end in self.real_ends:
                self.emit('WireBad', end, status, i={'off': clampi(consumed)})
            else:
                # an adversary wrote something that cannot be framed: one opaque message, then nothing more
                m = {'t': 'UNKNOWN', 'type': buf[consumed] if consumed < len(buf) else 0,
                     'size': len(buf) - consumed}
                self.stream_msgs[end].append(m)
                self.emit('Wire', end, 'UNKNOWN', m=msg_record(m))
                self.wire_status[end] = 'stuck'

    def _on_recv(self, sock, nbytes):
        self.emit('Rx', sock.name, i={'k': clampi(nbytes), 'off': clampi(sock.recv_total)})

    def _on_close(self, sock):
        self.emit('Closed', sock.name)

    def _wrap_recv_message(self, end, hdl):
        orig = hdl.recv_message
        world = self

        def wrapped(pkt):
            world._log_handle(end)
            return orig(pkt)

        hdl.recv_message = wrapped

    def peer(self, end):
        return 'P' if end == 'A' else 'A'

    def _log_handle(self, end):
        ''' The endpoint starts to act on its next message: identify it independently. '''
        idx = self.handled[end]
        self.handled[end] += 1
        src = self.in_stream(end)
        if idx < len(src):
            m = src[idx]
            cum = sum(x['size'] for x in src[:idx + 1])
            self.emit('Handle', end, m['t'], m=msg_record(m), i={'idx': idx + 1, 'cum': clampi(cum)})
        else:
            self.emit('Handle', end, 'NOMSG', m=msg_record({'t': 'UNKNOWN', 'type': 0, 'size': 0}),
                      i={'idx': idx + 1, 'cum': -1})

    def in_stream(self, end):
        ''' Messages in the octet stream flowing *towards* ``end`` (independent decoding). '''
        peer = self.peer(end)
        if peer not in self.real_ends:
            return [m for m in self.stream_msgs[peer] if m['t'] != 'UNKNOWN']
        buf = bytes(self.sock[peer].sent_log)
        msgs, _c, _s = codec.parse_stream(buf)
        return msgs

    # ------------------------------------------------------------------ views
    def view(self, end):
        hdl = self.hdl[end]
        sink = dbus.RECORDER.sink
        dbus.RECORDER.sink = None
        dbus.RECORDER.enabled = False
        try:
            state = str(hdl.get_session_state())
            idle = bool(hdl.is_sess_idle())
            txq = sorted(int(x) for x in hdl.send_bundle_get_queue())
            rxq = sorted(int(x) for x in hdl.recv_bundle_get_queue())
            rxbuf = int(hdl.recv_buffer_used())
            secure = bool(session.Connection.is_secure(hdl))
        finally:
            dbus.RECORDER.enabled = True
            dbus.RECORDER.sink = sink
        sock = self.sock[end]
        return {
            'state': state, 'idle': idle, 'txq': txq, 'rxq': rxq, 'rxbuf': clampi(rxbuf), 'secure': secure,
            'closed': bool(sock.closed), 'recvd': clampi(sock.recv_total), 'sent': clampi(len(sock.sent_log)),
        }

    def end_callback(self, end, name):
        self.emit('View', end, name, v=self.view(end))

    # ------------------------------------------------------------------ stepping
    def start(self, end):
        self.emit('Cb', end, 'start')
        try:
            self.hdl[end].start()
        except Exception as err:
            self.emit('Escape', end, 'start', i={'exc': type(err).__name__, 'user': False,
                                                 'kf': 'escape_start_%s' % type(err).__name__})
        self.end_callback(end, 'start')

    def _guard(self, end, name, func, *args):
        ''' A call made on behalf of a bus client: an exception becomes a D-Bus error reply. '''
        self.call_failed = False
        try:
            return func(*args)
        except Exception as err:
            self.call_failed = True
            self.emit('Escape', end, name, i={'exc': type(err).__name__, 'user': True,
                                              'kf': 'call_%s_%s' % (name, type(err).__name__)})
            return None

    def sources(self, end, which):
        ''' Ready sources of one end by role: 'tx' | 'rx' | 'pq' | 'ka' | 'idle' '''
        hdl = self.hdl.get(end)
        names = {
            'tx': ('_avail_tx_notls', '_avail_tx_tls'),
            'rx': ('_avail_rx_notls', '_avail_rx_tls'),
            'pq': ('_process_queue',),
            'ka': ('_keepalive_timeout',),
            'idle': ('_idle_timeout',),
        }[which]
        out = []
        for src in GLib.SCHED.sources.values():
            (n, owner) = src.name
            if owner is hdl and n in names:
                out.append(src)
        out.sort(key=lambda s: (s.kind != 'idle', s.seq))
        return out

    def step(self, end, which, quota=None):
        ''' Run one callback of ``end``.  :return: True if something ran. '''
        cands = self.sources(end, which)
        if which in ('ka', 'idle'):
            if not cands:
                return False
            src = cands[0]
            GLib.SCHED.advance_to(src.due)
        else:
            cands = [s for s in cands if GLib.SCHED.ready(s)]
            if not cands:
                return False
            src = cands[0]
            if which == 'tx':
                # the io watch only fires when the socket is writable
                if src.kind == 'io' and quota == 0:
                    return False
                self.sock[end].send_quota = quota
            elif which == 'rx':
                self.sock[end].recv_quota = quota
        self.emit('Cb', end, which, i={'kind': src.kind})
        (ran, exc) = GLib.SCHED.run(src)
        if self.tick_ms:
            GLib.SCHED.advance(self.tick_ms)
        self.sock[end].send_quota = None
        self.sock[end].recv_quota = None
        if exc is not None:
            self.emit('Escape', end, which, i={'exc': type(exc).__name__, 'user': False,
                                               'kf': 'escape_%s_%s' % (which, type(exc).__name__)})
        self.end_callback(end, which)
        return ran

    def user_send(self, end, data):
        self.emit('Cb', end, 'send', i={'len': clampi(len(data))})
        bid = self._guard(end, 'send', self.hdl[end].send_bundle_data, data)
        if bid is not None:
            self.sent_payload[end][int(bid)] = bytes(data)
            self.sent_order[end].append(int(bid))
            self.emit('UserSend', end, i={'id': int(bid), 'len': clampi(len(data))})
        self.end_callback(end, 'send')
        return bid

    def user_terminate(self, end, reason=0):
        self.emit('Cb', end, 'terminate', i={'reason': reason})
        self._guard(end, 'terminate', self.hdl[end].terminate, reason)
        self.emit('UserTerm', end, i={'ok': not self.call_failed})
        self.end_callback(end, 'terminate')

    def user_close(self, end):
        self.emit('Cb', end, 'close')
        self.emit('UserClose', end)
        self._guard(end, 'close', self.hdl[end].close)
        self.end_callback(end, 'close')

    def user_pop(self, end, bid=None):
        hdl = self.hdl[end]
        dbus.RECORDER.enabled = False
        try:
            queue = [int(x) for x in hdl.recv_bundle_get_queue()]
        finally:
            dbus.RECORDER.enabled = True
        if bid is None:
            if not queue:
                return None
            bid = queue[0]
        self.emit('Cb', end, 'pop', i={'id': bid})
        data = self._guard(end, 'pop', hdl.recv_bundle_pop_data, str(bid))
        if data is not None:
            peer = self.peer(end)
            sent = self.sent_payload[peer].get(bid)
            runs = []
            if len(data) <= 4096:
                for octet in bytes(data):
                    if runs and runs[-1][0] == octet:
                        runs[-1][1] += 1
                    else:
                        runs.append([octet, 1])
            self.emit('UserPop', end, i={'id': bid, 'len': clampi(len(data)), 'runs': runs[:64],
                                         'same': bool(sent is not None and bytes(data) == sent)})
        self.end_callback(end, 'pop')
        return data

    def query(self, end):
        ''' Call every query method once through the recorded D-Bus path. '''
        hdl = self.hdl[end]
        self.emit('Cb', end, 'query')
        for name in ('get_session_state', 'is_secure', 'is_sess_idle', 'send_bundle_get_queue',
                     'recv_bundle_get_queue', 'get_session_parameters'):
            self._guard(end, name, getattr(hdl, name))
        self.end_callback(end, 'query')

    def net_deliver(self, end, k=None):
        ''' Let k octets sent by ``end`` become readable at the peer. '''
        return self.sock[end].deliver(k)

    def tick(self, ms):
        GLib.SCHED.advance(ms)

    # ------------------------------------------------------------------ fair tail
    def runnable_roles(self):
        out = []
        for end in self.real_ends:
            for which in ('rx', 'tx', 'pq'):
                cands = [s for s in self.sources(end, which) if GLib.SCHED.ready(s)]
                if cands:
                    out.append((end, which))
        return out

    def inflight(self):
        return any(self.sock[e].inflight for e in ENDS)

    def _fingerprint(self):
        ''' Observable progress marker: substantive events so far, current views, pending roles. '''
        subst = self.n_subst
        views = tuple(sorted((e, json.dumps(self.view(e), sort_keys=True)) for e in self.real_ends))
        roles = tuple(sorted(self.runnable_roles()))
        infl = tuple(len(self.sock[e].inflight) for e in ENDS)
        return (subst, views, roles, infl)

    def run_fair(self, max_steps=2000, timers=True, horizon_ms=None, pop=False):
        ''' Round-robin all ready callbacks (and pending deliveries, then timers in time order)
        until nothing can run or a whole round changes nothing observable (the code re-arms some
        idle sources for ever, e.g. _process_queue while "waiting for session").
        :return: (steps, quiesced) '''
        steps = 0
        while steps < max_steps:
            before = self._fingerprint()
            progressed = False
            for end in ENDS:
                if self.sock[end].inflight:
                    self.net_deliver(end)
                    progressed = True
            for (end, which) in self.runnable_roles():
                if self.step(end, which):
                    steps += 1
                    progressed = True
            if pop:
                for end in self.real_ends:
                    while self.user_pop(end) is not None:
                        steps += 1
                        progressed = True
            if progressed and self._fingerprint() != before:
                continue
            if not timers:
                break
            nxt = None
            for end in self.real_ends:
                for which in ('ka', 'idle'):
                    for src in self.sources(end, which):
                        if horizon_ms is not None and src.due > horizon_ms:
                            continue
                        if nxt is None or src.due < nxt[0]:
                            nxt = (src.due, end, which)
            if nxt is None:
                break
            self.step(nxt[1], nxt[2])
            steps += 1
        after = self._fingerprint()
        # quiesced: nothing in flight and another full round would change nothing
        quiesced = (steps < max_steps) and not self.inflight()
        return steps, quiesced

    def finish(self, scenario=None):
        ''' Close the log: Scenario first, Final last; drop callbacks in which nothing observable
        happened (a Cb immediately followed by an unchanged View). '''
        for end in self.real_ends:
            self.emit('Final', end, v=self.view(end))
        dbus.RECORDER.sink = None
        scen = {'kind': 'pair', 'real': list(self.real_ends), 'faults': False, 'flush': True, 'quiesced': True,
                'cooperative': True, 'idle': {e: int(self.cfg[e].idle) for e in ENDS}}
        if scenario:
            scen.update(scenario)
        out = [{'a': 'Scenario', 'e': 'A', 'n': scen['kind'], 'seq': 0, 't': 0, 's': scen}]
        last_view = {}
        last_t = 0
        log = self.log
        i = 0
        while i < len(log):
            ev = log[i]
            if ev['a'] == 'Cb' and i + 1 < len(log) and log[i + 1]['a'] == 'View' \
                    and log[i + 1]['e'] == ev['e'] and last_view.get(ev['e']) == log[i + 1]['v'] \
                    and ev['t'] == last_t and ev['n'] not in ('ka', 'idle'):
                i += 2
                continue
            if ev['a'] == 'View':
                last_view[ev['e']] = ev['v']
            last_t = ev['t']
            out.append(ev)
            i += 1
        for (k, ev) in enumerate(out):
            ev['seq'] = k
        return out

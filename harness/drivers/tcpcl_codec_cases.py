''' C07, second sentence: every TCPCL message the implementation encodes is decoded to the same
fields by the independent RFC 9174 decoder, and vice versa.  Produces CodecTrace events. '''
import binascii
import hashlib

import boot  # noqa: F401
from harness.indep import tcpcl_codec as codec

from tcpcl import contact, messages, extend, formats  # noqa: F401
from scapy import packet

U64 = 2 ** 64 - 1


def fields(t, **kw):
    rec = {'t': t, 'flags': 0, 'id': '0', 'len': '0', 'reason': 0, 'ka': 0, 'mru': '0', 'xmru': '0', 'nid': '',
           'rej': 0, 'ver': 0, 'magic': '', 'exts': [], 'data': ''}
    rec.update(kw)
    return rec


def digest(data):
    return '%d:%s' % (len(data), hashlib.sha256(bytes(data)).hexdigest()[:16])


def ext_rec(items):
    return [[int(it['type']), int(it['flags']), binascii.hexlify(it['value']).decode()] for it in items]


# ---------------------------------------------------------------- independent side
def indep_fields(m):
    t = m['t']
    if t == 'CH':
        return fields('CH', flags=m['flags'], ver=m['version'], magic=binascii.hexlify(m['magic']).decode())
    if t == 'INIT':
        return fields('INIT', ka=m['keepalive'], mru=str(m['seg_mru']), xmru=str(m['xfer_mru']), nid=m['node_id'],
                      exts=ext_rec(m['ext']))
    if t == 'SEG':
        return fields('SEG', flags=m['flags'], id=str(m['id']), len=str(m['len']), exts=ext_rec(m['ext']),
                      data=digest(m['data']))
    if t == 'ACK':
        return fields('ACK', flags=m['flags'], id=str(m['id']), len=str(m['len']))
    if t == 'REFUSE':
        return fields('REFUSE', reason=m['reason'], id=str(m['id']))
    if t == 'KA':
        return fields('KA')
    if t == 'TERM':
        return fields('TERM', flags=m['flags'], reason=m['reason'])
    if t == 'REJECT':
        return fields('REJECT', reason=m['reason'], rej=m['rej_type'])
    return fields('UNKNOWN')


def indep_encode(f, data=b'', exts=()):
    t = f['t']
    if t == 'CH':
        return codec.enc_contact(f['flags'], f['ver'], binascii.unhexlify(f['magic']))
    if t == 'INIT':
        return codec.enc_sess_init(f['ka'], int(f['mru']), int(f['xmru']), f['nid'], exts)
    if t == 'SEG':
        return codec.enc_segment(int(f['id']), data, f['flags'], exts)
    if t == 'ACK':
        return codec.enc_ack(int(f['id']), int(f['len']), f['flags'])
    if t == 'REFUSE':
        return codec.enc_refuse(int(f['id']), f['reason'])
    if t == 'KA':
        return codec.enc_keepalive()
    if t == 'TERM':
        return codec.enc_sess_term(f['reason'], f['flags'])
    if t == 'REJECT':
        return codec.enc_reject(f['rej'], f['reason'])
    raise ValueError(t)


# ---------------------------------------------------------------- implementation side
def impl_ext_items(items):
    out = []
    for it in items:
        out.append([int(it.type), int(it.getfieldval('flags')), binascii.hexlify(bytes(it.payload)).decode()])
    return out


def impl_fields(pkt):
    if isinstance(pkt, contact.Head):
        load = pkt.payload
        flags = int(load.getfieldval('flags')) if isinstance(load, contact.ContactV4) else -1
        return fields('CH', flags=flags, ver=int(pkt.version), magic=binascii.hexlify(pkt.magic).decode())
    load = pkt.payload
    if isinstance(load, messages.SessionInit):
        nid = load.getfieldval('nodeid_data')
        nid = nid.decode('utf-8') if isinstance(nid, bytes) else str(nid)
        return fields('INIT', ka=int(load.keepalive), mru=str(load.segment_mru), xmru=str(load.transfer_mru),
                      nid=nid, exts=impl_ext_items(load.ext_items))
    if isinstance(load, messages.TransferSegment):
        data = load.getfieldval('data')
        return fields('SEG', flags=int(load.getfieldval('flags')), id=str(load.transfer_id),
                      len=str(len(data) if load.length is None else load.length),
                      exts=impl_ext_items(load.ext_items or []), data=digest(data))
    if isinstance(load, messages.TransferAck):
        return fields('ACK', flags=int(load.getfieldval('flags')), id=str(load.transfer_id), len=str(load.length))
    if isinstance(load, messages.TransferRefuse):
        return fields('REFUSE', reason=int(load.reason), id=str(load.transfer_id))
    if isinstance(load, messages.Keepalive):
        return fields('KA')
    if isinstance(load, messages.SessionTerm):
        return fields('TERM', flags=int(load.getfieldval('flags')), reason=int(load.reason))
    if isinstance(load, messages.RejectMsg):
        return fields('REJECT', reason=int(load.reason), rej=int(load.rej_msg_id))
    return fields('UNKNOWN')


def impl_build(f, data=b'', exts=()):
    ''' Build the message with the repository's classes from intended field values. '''
    t = f['t']
    if t == 'CH':
        return contact.Head(magic=binascii.unhexlify(f['magic']), version=f['ver']) / contact.ContactV4(flags=f['flags'])
    if t == 'INIT':
        items = [messages.SessionExtendHeader(flags=e['flags'], type=e['type']) / packet.Raw(e['value'])
                 for e in exts]
        return messages.MessageHead() / messages.SessionInit(
            keepalive=f['ka'], segment_mru=int(f['mru']), transfer_mru=int(f['xmru']), nodeid_data=f['nid'],
            ext_items=items)
    if t == 'SEG':
        items = []
        for e in exts:
            if e['type'] == 1:
                import struct
                items.append(messages.TransferExtendHeader(flags=e['flags']) / extend.TransferTotalLength(
                    total_length=struct.unpack('!Q', e['value'])[0]))
            else:
                items.append(messages.TransferExtendHeader(flags=e['flags'], type=e['type']) / packet.Raw(e['value']))
        return messages.MessageHead() / messages.TransferSegment(transfer_id=int(f['id']), flags=f['flags'],
                                                                 data=data, ext_items=items)
    if t == 'ACK':
        return messages.MessageHead() / messages.TransferAck(transfer_id=int(f['id']), flags=f['flags'],
                                                             length=int(f['len']))
    if t == 'REFUSE':
        return messages.MessageHead() / messages.TransferRefuse(transfer_id=int(f['id']), reason=f['reason'])
    if t == 'KA':
        return messages.MessageHead() / messages.Keepalive()
    if t == 'TERM':
        return messages.MessageHead() / messages.SessionTerm(flags=f['flags'], reason=f['reason'])
    if t == 'REJECT':
        return messages.MessageHead() / messages.RejectMsg(rej_msg_id=f['rej'], reason=f['reason'])
    raise ValueError(t)


def cases(tier):
    ''' (fields, data, exts) for every message kind with boundary values. '''
    out = []
    for flags in (0, 1):
        out.append((fields('CH', flags=flags, ver=4, magic='64746e21'), b'', ()))
    ext_sets = [(), ({'flags': 0, 'type': 0x1234, 'value': b''},),
                ({'flags': 1, 'type': 0xFFFE, 'value': b'\x00\x01\x02'}, {'flags': 0, 'type': 2, 'value': b'x' * 300})]
    kas = (0, 1, 65535)
    mrus = (0, 1, 2 ** 31 - 1, 2 ** 32, U64)
    nids = ('', 'dtn://node-a/', 'ipn:5.0', 'dtn://nøde/世界')
    k = 0
    for ka in kas:
        for mru in mrus:
            nid = nids[k % len(nids)]
            exts = ext_sets[k % len(ext_sets)]
            k += 1
            out.append((fields('INIT', ka=ka, mru=str(mru), xmru=str(mrus[(k * 2) % len(mrus)]), nid=nid), b'', exts))
    ids = (0, 1, 255, 2 ** 32, U64)
    datas = [b'', b'\x00', b'abc', bytes(range(256)), bytes((i * 5) % 251 for i in range(65536))]
    if tier == 'thorough':
        datas.append(bytes((i * 11) % 253 for i in range(300000)))
    for (i, tid) in enumerate(ids):
        for (j, data) in enumerate(datas):
            for flags in (0, 1, 2, 3):
                exts = ()
                if flags & 2:
                    exts = [codec.ext_total_length(len(data) + j)]
                    if (i + j) % 2:
                        exts.append({'flags': 0, 'type': 0x55, 'value': b'\xde\xad'})
                out.append((fields('SEG', flags=flags, id=str(tid), len=str(len(data))), data, tuple(exts)))
    for tid in ids:
        for ln in (0, 1, 65535, 65536, 2 ** 40, U64):
            for flags in (0, 1, 2, 3):
                out.append((fields('ACK', flags=flags, id=str(tid), len=str(ln)), b'', ()))
    for tid in ids:
        for reason in range(0, 6):
            out.append((fields('REFUSE', reason=reason, id=str(tid)), b'', ()))
    out.append((fields('KA'), b'', ()))
    for flags in (0, 1):
        for reason in range(0, 6):
            out.append((fields('TERM', flags=flags, reason=reason), b'', ()))
    for rej in (1, 2, 3, 4, 5, 6, 7, 0x99):
        for reason in (1, 2, 3):
            out.append((fields('REJECT', rej=rej, reason=reason), b'', ()))
    return out


KINDS = ['CH', 'INIT', 'SEG', 'ACK', 'REFUSE', 'KA', 'TERM', 'REJECT']


def trace(tier, prop='C07'):
    evs = []
    for (f, data, exts) in cases(tier):
        want = dict(f)
        want['exts'] = ext_rec(exts)
        if f['t'] == 'SEG':
            want['data'] = digest(data)
        kf = 'reject_field_order' if f['t'] == 'REJECT' and f['rej'] != f['reason'] else ''
        # implementation encodes, independent decoder reads
        try:
            octets = bytes(impl_build(f, data, exts))
            if f['t'] == 'CH':
                m = codec.decode_contact(octets)
                m['size'] = len(octets)
            else:
                m = codec.decode_message(octets)
            got = indep_fields(m)
            lens_ok = (m.get('size') == len(octets))
        except Exception as err:
            got = fields('ERROR', nid=type(err).__name__)
            lens_ok = False
        evs.append({'a': 'ImplEnc', 'prop': prop, 'kind': f['t'], 'impl': want, 'indep': got, 'lens_ok': lens_ok,
                    'kf': kf})
        # independent encoder writes, implementation decodes and re-encodes
        octets = indep_encode(f, data, exts)
        decoded = True
        same = False
        try:
            pkt = contact.Head(octets) if f['t'] == 'CH' else messages.MessageHead(octets)
            got = impl_fields(pkt)
            same = bytes(pkt) == octets
        except Exception as err:
            decoded = False
            got = fields('ERROR', nid=type(err).__name__)
        evs.append({'a': 'ImplDec', 'prop': prop, 'kind': f['t'], 'impl': got, 'indep': want, 'decoded': decoded,
                    'kf': kf})
        evs.append({'a': 'ReEnc', 'prop': prop, 'kind': f['t'], 'same': same, 'kf': ''})
    evs.append({'a': 'End', 'prop': prop, 'kinds': KINDS})
    return evs

''' Two real tcpcl.agent.Agent objects (connection life cycle: listen, connect, accept, shutdown,
stop) over simulated TCP.  The ``socket`` module *inside tcpcl.agent* is replaced by a stand-in
whose sockets are the harness' FakeSocket pairs (harness/sim/net.py): ``connect()`` to an address
some fake socket listens on creates a pair and queues the server side for ``accept()``.

Events (for specs/TcpclAgentObs.tla): Scenario, Listen, Connect (the D-Bus method returned),
Opened / Closed (the connection_opened / connection_closed signals), Sig (every signal with its
declared signature and structural type tags), Ret (every D-Bus method return), Conns (what
get_connections lists), Shutdown / Stop (user calls), Stopped (on_stop callback),
SockClosed (a connection socket was closed), Escape, Final (what is still open).
'''
import socket as real_socket
import types

import boot  # noqa: F401
from gi.repository import GLib
import dbus
import dbus.bus

from harness.sim import net
from harness.drivers.tcpcl_world import EndCfg, _VirtualDatetimeModule
import tcpcl.agent as tagent
import tcpcl.session as session

ADDR = {'A': '10.0.0.1', 'P': '10.0.0.2'}


class ListenSocket(object):
    _fd = [5000]

    def __init__(self, netw, owner):
        self.netw = netw
        self.owner = owner
        self.local = None
        self.listening = False
        self.closed = False
        self.queue = []
        ListenSocket._fd[0] += 1
        self._fdno = ListenSocket._fd[0]
        self.pair = None        # set when this socket object turns into a connected client socket

    # --- listening side
    def setsockopt(self, *args):
        pass

    def bind(self, addr):
        self.local = (addr[0], addr[1])

    def listen(self, _n):
        self.listening = True
        self.netw.listeners[self.local] = self

    def accept(self):
        if not self.queue:
            raise BlockingIOError(11, 'nothing to accept')
        (sock, fromaddr) = self.queue.pop(0)
        return sock, fromaddr

    def shutdown(self, _how):
        if not self.listening:
            raise OSError(107, 'Transport endpoint is not connected')

    def close(self):
        self.closed = True
        if self.netw.listeners.get(self.local) is self:
            del self.netw.listeners[self.local]
        # connections still in the listen queue are reset by the kernel
        while self.queue:
            (sock, _fromaddr) = self.queue.pop(0)
            sock.close()

    def fileno(self):
        return -1 if self.closed else self._fdno

    def verif_poll(self):
        return GLib.IO_IN if (self.queue and not self.closed) else 0


class Net(object):
    ''' The TCP "network" of the scenario. '''

    def __init__(self, world):
        self.world = world
        self.listeners = {}
        self.pairs = []         # (client FakeSocket, server FakeSocket, client owner, server owner)
        self.current_owner = None
        self.port = 40000

    def make_socket_module(self):
        netw = self
        mod = types.ModuleType('fake_socket')
        for name in dir(real_socket):
            if not name.startswith('__'):
                setattr(mod, name, getattr(real_socket, name))

        class Sock(object):
            ''' socket.socket(): becomes a listener (bind + listen) or a client (connect). '''

            def __new__(cls, family=real_socket.AF_INET, stype=real_socket.SOCK_STREAM, proto=0, fileno=None):
                return _Proto(netw)
        mod.socket = Sock
        return mod


class _Proto(object):
    ''' A not yet specialised TCP socket: delegates to a ListenSocket or to a connected FakeSocket. '''

    def __init__(self, netw):
        self.__dict__['_netw'] = netw
        self.__dict__['_owner'] = netw.current_owner
        self.__dict__['_impl'] = ListenSocket(netw, netw.current_owner)

    def connect(self, addr):
        netw = self._netw
        lst = netw.listeners.get((addr[0], addr[1]))
        if lst is None or lst.closed:
            raise ConnectionRefusedError(111, 'Connection refused')
        netw.port += 1
        local = (ADDR.get(self._owner, '10.0.0.9'), netw.port)
        (cs, ss) = net.socketpair(auto_deliver=True)
        cs._local, cs._remote = local, (addr[0], addr[1])
        ss._local, ss._remote = (addr[0], addr[1]), local
        netw.pairs.append((cs, ss, self._owner, lst.owner))
        netw.world.adopt(cs, self._owner)
        netw.world.adopt(ss, lst.owner)
        lst.queue.append((ss, local))
        self.__dict__['_impl'] = cs

    def __getattr__(self, name):
        return getattr(self.__dict__['_impl'], name)

    def __setattr__(self, name, value):
        setattr(self.__dict__['_impl'], name, value)


class AgentWorld(object):

    def __init__(self, cfg_a=None, cfg_p=None, stop_on_close=False):
        GLib.reset()
        dbus.bus.BusConnection.reset_all()
        dbus.RECORDER.clear()
        self.log = []
        self.netw = Net(self)
        tagent.socket = self.netw.make_socket_module()
        session.datetime = _VirtualDatetimeModule
        dbus.RECORDER.sink = self._on_dbus
        self.sock_owner = {}
        self.sock_ids = {}
        self.agent = {}
        self.agent_of = {}
        self.hdl_agent = {}
        self.stopped = {'A': 0, 'P': 0}
        self.emit('Scenario', s={'agents': ['A', 'P'], 'stop_on_close': bool(stop_on_close)})
        for (who, cfg) in (('A', cfg_a or EndCfg('dtn://a/')), ('P', cfg_p or EndCfg('dtn://p/'))):
            conf = cfg.to_config('agent-bus-' + who)
            conf.stop_on_close = stop_on_close
            conf.bus_service = None
            self.netw.current_owner = who
            ag = tagent.Agent(conf, bus_kwargs=dict(conn=conf.bus_conn, object_path='/org/ietf/dtn/tcpcl/Agent'))
            ag.set_on_stop(lambda w=who: self._on_stop(w))
            self.agent[who] = ag
            self.agent_of[id(ag)] = who

    # ------------------------------------------------------------------ recording
    def emit(self, a, **kw):
        ev = {'a': a, 'seq': len(self.log)}
        ev.update(kw)
        self.log.append(ev)
        return ev

    def adopt(self, sock, owner):
        self.sock_owner[id(sock)] = owner
        self.sock_ids[id(sock)] = len(self.sock_ids) + 1
        sock.on_close = self._on_sock_close
        self.emit('SockOpen', who=owner, sock=self.sock_ids[id(sock)])

    def _on_sock_close(self, sock):
        self.emit('SockClosed', who=self.sock_owner.get(id(sock), '?'), sock=self.sock_ids.get(id(sock), 0))

    def _on_stop(self, who):
        self.stopped[who] += 1
        self.emit('Stopped', who=who)

    def _on_dbus(self, ev):
        who = self.agent_of.get(id(ev.obj))
        if who is None:
            # a ContactHandler: only the fate of its transfers matters at this level (the session checks judge the rest)
            owner = self.hdl_agent.get(id(ev.obj))
            if owner is not None and ev.kind == 'signal' and ev.name in ('send_bundle_started', 'send_bundle_finished'):
                (hwho, hpath) = owner
                try:
                    bid = int(str(ev.args[0]))
                except (ValueError, IndexError):
                    bid = -1
                if ev.name == 'send_bundle_started':
                    self.emit('XferStart', who=hwho, path=hpath, id=bid)
                else:
                    self.emit('XferFin', who=hwho, path=hpath, id=bid, result=str(ev.args[2]) if len(ev.args) > 2 else '')
            return
        rec = {'who': who, 'n': ev.name, 'sigt': dbus.parse_signature(ev.sig), 'tags': list(ev.tags)}
        if ev.kind == 'signal':
            self.emit('Sig', **rec)
            if ev.name == 'connection_opened':
                try:
                    self.hdl_agent[id(self.agent[who].handler_for_path(str(ev.args[0])))] = (who, str(ev.args[0]))
                except (KeyError, AttributeError):
                    pass
                self.emit('Opened', who=who, path=str(ev.args[0]))
            elif ev.name == 'connection_closed':
                self.emit('Closed', who=who, path=str(ev.args[0]))
        else:
            self.emit('Ret', **rec)

    # ------------------------------------------------------------------ user actions
    def _call(self, who, name, func, *args):
        self.netw.current_owner = who
        try:
            return (True, func(*args))
        except Exception as err:    # a D-Bus method raising is an error reply to the caller
            self.emit('Error', who=who, n=name, exc=type(err).__name__)
            return (False, None)

    def listen(self, who, port=4556):
        (ok, _r) = self._call(who, 'listen', self.agent[who].listen, ADDR[who], port)
        self.emit('Listen', who=who, port=port, ok=ok)

    def listen_stop(self, who, port=4556):
        (ok, _r) = self._call(who, 'listen_stop', self.agent[who].listen_stop, ADDR[who], port)
        self.emit('ListenStop', who=who, port=port, ok=ok)

    def connect(self, who, to, port=4556):
        (ok, path) = self._call(who, 'connect', self.agent[who].connect, ADDR[to], port)
        self.emit('Connect', who=who, ok=ok, path=str(path) if ok else '')
        return path if ok else None

    def conns(self, who):
        (ok, val) = self._call(who, 'get_connections', self.agent[who].get_connections)
        self.emit('Conns', who=who, ok=ok, paths=sorted(str(p) for p in val) if ok else [])

    def shutdown(self, who):
        (ok, val) = self._call(who, 'shutdown', self.agent[who].shutdown)
        self.emit('Shutdown', who=who, ok=ok, immediate=bool(val) if ok else False)

    def stop(self, who):
        (ok, _val) = self._call(who, 'stop', self.agent[who].stop)
        self.emit('Stop', who=who, ok=ok)

    def terminate(self, who, path):
        ''' The user of one connection asks that session to terminate. '''
        try:
            hdl = self.agent[who].handler_for_path(path)
        except KeyError:
            return
        (ok, _val) = self._call(who, 'terminate', hdl.terminate, 0)
        self.emit('HdlTerm', who=who, path=str(path), ok=ok)

    def send(self, who, path, data):
        hdl = self.agent[who].handler_for_path(path)
        (ok, _val) = self._call(who, 'send_bundle_data', hdl.send_bundle_data, data)
        return ok

    # ------------------------------------------------------------------ event loop
    def run(self, max_steps=4000, rnd=None, only=None):
        ''' Run ready sources (all agents share the scheduler) until nothing is ready.
        rnd: random choice among ready sources; only: restrict to sources of that many steps. '''
        steps = 0
        idle_spin = 0
        while steps < max_steps:
            ready = [s for s in GLib.SCHED.runnable() if s.kind in ('io', 'idle')]
            if not ready:
                break
            src = rnd.choice(ready) if rnd else ready[steps % len(ready)]
            before = len(self.log)
            fp = self._fingerprint()
            (_ran, exc) = GLib.SCHED.run(src)
            steps += 1
            if exc is not None:
                self.emit('Escape', where=src.name[0], exc=type(exc).__name__)
            # the session code re-arms an idle source for ever while it waits: stop when nothing changes
            if len(self.log) == before and self._fingerprint() == fp:
                idle_spin += 1
                if idle_spin > 3 * len(ready) + 6:
                    break
            else:
                idle_spin = 0
            if only is not None and steps >= only:
                break
        return steps

    def run_accepts(self, who):
        ''' Let the agent take every connection that is waiting in its listen queue. '''
        for _ in range(20):
            ready = [s for s in GLib.SCHED.runnable() if s.kind == 'io' and s.name[0] == '_accept'
                     and s.name[1] is self.agent[who]]
            if not ready:
                break
            (_ran, exc) = GLib.SCHED.run(ready[0])
            if exc is not None:
                self.emit('Escape', where='_accept', exc=type(exc).__name__)

    def _fingerprint(self):
        parts = []
        for (cs, ss, _a, _b) in self.netw.pairs:
            for s in (cs, ss):
                parts.append((len(s.sent_log), s.recv_total, s.closed, len(s.readable)))
        return tuple(parts)

    def finish(self):
        dbus.RECORDER.sink = None
        for who in ('A', 'P'):
            ag = self.agent[who]
            open_socks = sorted(self.sock_ids[id(s)] for pair in self.netw.pairs for s in pair[:2]
                                if self.sock_owner.get(id(s)) == who and not s.closed)
            listening = sorted(port for ((_addr, port), lst) in self.netw.listeners.items() if lst.owner == who)
            paths = sorted(str(p) for p in ag.get_connections())     # public view of the connection table
            self.emit('Final', who=who, open_socks=open_socks, handlers=len(paths),
                      paths=paths, listening=listening,
                      stopped=self.stopped[who], on_bus=bool(tuple(ag.locations)))
        return self.log

''' C17: one real endpoint against a peer that sends well-formed messages in the wrong state or about
unknown transfers, while co-operating (ACKs) with the victim's own transfers. '''
import itertools
import random

import boot  # noqa: F401
from harness.drivers.tcpcl_world import World, EndCfg
from harness.indep import tcpcl_codec as codec

SESS_MOVES = ['seg_nostart_unknown', 'seg_end_unknown', 'ack_unknown', 'ack_finished', 'ack_own_end', 'ack_own_mid',
              'refuse_unknown', 'refuse_sent_unacked',
              'refuse_own', 'unknown_type', 'xfer_ok', 'xfer_start', 'xfer_mismatch', 'xfer_cont_end', 'ka',
              'reject_msg', 'term', 'term_twice', 'term_reply', 'ch_again']
PRE_INIT_MOVES = ['seg', 'ack', 'refuse', 'term', 'ka', 'unknown_type', 'ack_early_own', 'refuse_early_own']
PRE_CH_MOVES = ['bad_magic', 'bad_version', 'seg_first']


class Adversary(object):

    def __init__(self, world, victim, nown, seed):
        self.w = world
        self.victim = victim
        self.me = world.peer(victim)
        self.sock = world.sock[self.me]
        self.tok = 40          # token for the next data-carrying segment
        self.next_id = 100
        self.open_id = None
        self.acked = 0         # victim segments acknowledged so far
        self.cum = {}
        self.noack = set()     # own transfers of the victim which the adversary has refused instead

    def send(self, octets):
        try:
            self.sock.send(octets)
        except OSError:
            return      # the victim has closed the connection
        self.sock.deliver()

    def settle(self, pops=False):
        w = self.w
        for _ in range(200):
            ran = False
            self.cooperate()
            for which in ('rx', 'tx', 'pq'):
                if w.step(self.victim, which):
                    ran = True
            if not ran and not self.cooperate():
                break

    def cooperate(self):
        ''' ACK every segment the victim has put on the wire. '''
        segs = [m for m in self.w.stream_msgs[self.victim] if m['t'] == 'SEG']
        did = False
        while self.acked < len(segs):
            seg = segs[self.acked]
            self.acked += 1
            start = bool(seg['flags'] & codec.SEG_START)
            total = (0 if start else self.cum.get(seg['id'], 0)) + seg['len']
            self.cum[seg['id']] = total
            if seg['id'] in self.noack:
                continue
            self.send(codec.enc_ack(seg['id'], total, seg['flags']))
            did = True
        return did

    def data(self, n):
        self.tok += 1
        return bytes([self.tok % 250 + 1]) * n

    def move(self, name):
        if name == 'seg_nostart_unknown':
            self.send(codec.enc_segment(77, self.data(2), 0))
        elif name == 'seg_end_unknown':
            self.send(codec.enc_segment(78, self.data(1), codec.SEG_END))
        elif name == 'ack_unknown':
            self.send(codec.enc_ack(999, 5, codec.SEG_END))
        elif name == 'ack_finished':
            self.send(codec.enc_ack(1, 0, 0))
        elif name in ('ack_own_end', 'ack_own_mid'):
            # a final ACK of the victim's newest own transfer, whatever its progress: still queued (first move
            # after the send request), being segmented (one queue-processing step, no co-operation), or done
            if name == 'ack_own_mid':
                self.w.step(self.victim, 'pq')
                self.w.step(self.victim, 'tx')
            own = self.w.sent_order[self.victim]
            tid = own[-1] if own else 1
            self.send(codec.enc_ack(tid, 5, codec.SEG_END))
        elif name == 'refuse_sent_unacked':
            # refuse a transfer of the victim which is completely sent but whose final ACK is still owed, while
            # the victim is (if it has more to send) already segmenting the next one
            for _ in range(40):
                segs = [m for m in self.w.stream_msgs[self.victim] if m['t'] == 'SEG']
                pending = [m['id'] for m in segs[self.acked:] if m['flags'] & codec.SEG_END]
                if pending and segs[-1]['id'] != pending[0] and not segs[-1]['flags'] & codec.SEG_END:
                    break       # the next transfer is under way
                self.w.step(self.victim, 'pq')
                self.w.step(self.victim, 'tx')
            if pending:
                self.noack.add(pending[0])
                self.send(codec.enc_refuse(pending[0], 1))
        elif name == 'refuse_unknown':
            self.send(codec.enc_refuse(999, 2))
        elif name == 'refuse_own':
            self.send(codec.enc_refuse(2, 4))
        elif name == 'unknown_type':
            self.send(bytes([0x09, 1, 2, 3]))
        elif name == 'xfer_ok':
            tid = self.next_id
            self.next_id += 1
            self.send(codec.enc_segment(tid, self.data(2), codec.SEG_START, [codec.ext_total_length(5)]))
            self.send(codec.enc_segment(tid, self.data(3), codec.SEG_END))
            self.open_id = None
        elif name == 'xfer_start':
            tid = self.next_id
            self.next_id += 1
            self.open_id = tid
            self.send(codec.enc_segment(tid, self.data(2), codec.SEG_START, [codec.ext_total_length(4)]))
        elif name == 'xfer_mismatch':
            self.send(codec.enc_segment(self.next_id + 50, self.data(2), 0))
        elif name == 'xfer_cont_end':
            tid = self.open_id if self.open_id is not None else 66
            self.send(codec.enc_segment(tid, self.data(2), codec.SEG_END))
            self.open_id = None
        elif name in ('ka',):
            self.send(codec.enc_keepalive())
        elif name == 'reject_msg':
            self.send(codec.enc_reject(1, 3))
        elif name == 'term':
            self.send(codec.enc_sess_term(0, 0))
        elif name == 'term_twice':
            # two SESS_TERM in one write (a duplicate)
            self.send(codec.enc_sess_term(0, 0) + codec.enc_sess_term(0, 0))
        elif name == 'term_reply':
            # marked as the reply to a SESS_TERM the victim never sent
            self.send(codec.enc_sess_term(0, 1))
        elif name == 'ch_again':
            self.send(codec.enc_contact(0))
        elif name == 'seg':
            self.send(codec.enc_segment(5, self.data(1), codec.SEG_START | codec.SEG_END, [codec.ext_total_length(1)]))
        elif name == 'ack':
            self.send(codec.enc_ack(5, 1, codec.SEG_END))
        elif name == 'refuse':
            self.send(codec.enc_refuse(5, 1))
        elif name == 'ack_early_own':
            # names the first transfer the victim's application may already have queued (ids start at 1)
            self.send(codec.enc_ack(1, 3, codec.SEG_END))
        elif name == 'refuse_early_own':
            self.send(codec.enc_refuse(1, 2))
        elif name == 'bad_magic':
            self.send(b'DTN!' + bytes([4, 0]))
        elif name == 'bad_version':
            self.send(codec.enc_contact(0, version=3))
        elif name == 'seg_first':
            self.send(codec.enc_segment(5, self.data(1), codec.SEG_START | codec.SEG_END, [codec.ext_total_length(1)]))
        else:
            raise ValueError(name)


def run_script(victim, pre_ch, pre_init, sess, nown=1, seed=0, early=0):
    cfg_v = EndCfg('dtn://victim/', seg_mru=64, seg_init=3)
    cfg_o = EndCfg('dtn://peer/')
    world = World(cfg_v if victim == 'A' else cfg_o, cfg_v if victim == 'P' else cfg_o, auto_deliver=False,
                  only=victim)
    adv = Adversary(world, victim, nown, seed)
    world.start(victim)
    adv.settle()
    for name in pre_ch:
        adv.move(name)
        adv.settle()
    adv.send(codec.enc_contact(0))
    adv.settle()
    # the application may queue bundles while the session is still being negotiated
    for k in range(early):
        if not world.sock[victim].closed:
            world.user_send(victim, bytes([190 + k]) * (4 + k))
    for name in pre_init:
        adv.move(name)
        adv.settle()
    adv.send(codec.enc_sess_init(keepalive=0, seg_mru=2, xfer_mru=2 ** 40, node_id='dtn://peer/'))
    adv.settle()
    for k in range(nown):
        if not world.sock[victim].closed:
            world.user_send(victim, bytes([200 + k]) * (5 + k))
    for (i, name) in enumerate(sess):
        if i % 2 == 1:
            adv.settle()
        adv.move(name)
        adv.settle()
    adv.settle()
    for _ in range(6):
        if world.user_pop(victim) is None:
            break
    adv.settle()
    world.query(victim)
    return world.finish({'kind': 'adv', 'real': [victim], 'quiesced': True, 'cooperative': True})


def executions(tier, seed):
    rnd = random.Random(seed * 7 + 3)
    scripts = []
    for victim in ('P', 'A'):
        scripts.append((victim, (), (), ()))
        for m in PRE_CH_MOVES:
            scripts.append((victim, (m,), (), ()))
        for m in PRE_INIT_MOVES:
            scripts.append((victim, (), (m,), ('xfer_ok',)))
            scripts.append((victim, (), (m,), ('xfer_ok', 'early')))
        for pair in itertools.product(PRE_INIT_MOVES, repeat=2):
            scripts.append((victim, (), pair, ('early',)))
        for m in SESS_MOVES:
            scripts.append((victim, (), (), (m,)))
        for pair in itertools.product(SESS_MOVES, repeat=2):
            scripts.append((victim, (), (), pair))
        if tier == 'thorough':
            for trip in itertools.product(SESS_MOVES, repeat=3):
                scripts.append((victim, (), (), trip))
        nrand = 150 if tier == 'quick' else 3000
        for _ in range(nrand):
            n = rnd.randint(3, 8)
            scripts.append((victim, (), tuple(rnd.sample(PRE_INIT_MOVES, rnd.choice([0, 0, 1, 2]))),
                            tuple(rnd.choice(SESS_MOVES) for _ in range(n))))
    traces, metas = [], []
    for (i, (victim, pre_ch, pre_init, sess)) in enumerate(scripts):
        nown = 1 + (i % 2)
        early = 1 + (i % 2) if 'early' in sess else (1 if (pre_init and i % 5 == 0) else 0)
        sess = tuple(m for m in sess if m != 'early')
        traces.append(run_script(victim, pre_ch, pre_init, sess, nown=nown, seed=seed + i, early=early))
        metas.append({'victim': victim, 'pre_ch': list(pre_ch), 'pre_init': list(pre_init), 'sess': list(sess),
                      'own_bundles': nown, 'queued_before_session': early})
    return traces, metas

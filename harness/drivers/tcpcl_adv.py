''' C17: one real endpoint against a peer that sends well-formed messages in the wrong state or about
unknown transfers, while co-operating (ACKs) with the victim's own transfers. '''
import itertools
import random

import boot  # noqa: F401
from gi.repository import GLib
import dbus
import tcpcl.session as session
from harness.sim import net
from harness.drivers.tcpcl_world import World, EndCfg, clampi
from harness.indep import tcpcl_codec as codec

SESS_MOVES = ['seg_nostart_unknown', 'seg_end_unknown', 'ack_unknown', 'ack_finished', 'ack_own_end', 'ack_own_mid',
              'refuse_unknown', 'refuse_sent_unacked',
              'refuse_own', 'unknown_type', 'xfer_ok', 'xfer_start', 'xfer_mismatch', 'xfer_cont_end', 'ka',
              'reject_msg', 'term', 'term_twice', 'term_reply', 'ch_again', 'init_again', 'vterm_ack_ka', 'vterm_ack_reject',
              'ack_other_conn', 'ack_other_conn_end', 'refuse_other_conn', 'xfer_start_2g', 'xfer_start_max']
PRE_INIT_MOVES = ['seg', 'ack', 'refuse', 'term', 'ka', 'unknown_type', 'ack_early_own', 'refuse_early_own']
PRE_CH_MOVES = ['bad_magic', 'bad_version', 'seg_first', 'bad_magic_then_good']


class Bystander(object):
    ''' Another connection of the same process (its own socket, its own co-operative peer) with transfers of its
    own under way.  The adversary of the victim connection names this connection's transfer ids: to the victim
    they are unknown transfers, and this connection must not notice anything. '''
    NBUNDLES = 6

    def __init__(self):
        (self.peer_sock, self.sock) = net.socketpair(addr_a=('10.0.0.7', 41000), addr_p=('10.0.0.8', 4556),
                                                     auto_deliver=False)
        conf = EndCfg('dtn://bystander/', seg_mru=64, seg_init=3).to_config('bus-B')
        self.events = []
        self.escapes = 0
        self.queued = []
        self.acked = 0
        self.cum = {}
        chained = dbus.RECORDER.sink

        def sink(ev):
            if ev.obj is self.hdl:
                if ev.kind == 'signal':
                    self.events.append((ev.name, [str(a) for a in ev.args]))
            elif chained is not None:
                chained(ev)
        self.hdl = None
        dbus.RECORDER.sink = sink
        self.hdl = session.ContactHandler(
            hdl_kwargs=dict(config=conf, sock=self.sock, fromaddr=self.sock.getpeername()),
            bus_kwargs=dict(conn=conf.bus_conn, object_path='/org/ietf/dtn/tcpcl/ContactB'))
        self.hdl.start()
        self.peer_send(codec.enc_contact(0))
        self.run()
        self.peer_send(codec.enc_sess_init(keepalive=0, seg_mru=2, xfer_mru=2 ** 40, node_id='dtn://other-peer/'))
        self.run()
        for k in range(self.NBUNDLES):
            self.queued.append(int(self.hdl.send_bundle_data(bytes([170 + k]) * (3 + k))))
        # the first transfers are on the wire and unacknowledged, the others wait in the queue
        self.run(max_steps=9)

    def peer_send(self, octets):
        try:
            self.peer_sock.send(octets)
        except OSError:
            return
        self.peer_sock.deliver()

    def run(self, max_steps=400):
        ''' Run this connection's ready callbacks. '''
        spin = 0
        for _ in range(max_steps):
            ready = [s for s in GLib.SCHED.sources.values() if s.name[1] is self.hdl and GLib.SCHED.ready(s)
                     and s.kind in ('io', 'idle') and s.name[0] != '_keepalive_timeout']
            if not ready:
                break
            ready.sort(key=lambda s: s.seq)
            before = (len(self.sock.sent_log), self.sock.recv_total, len(self.events))
            (_ran, exc) = GLib.SCHED.run(ready[spin % len(ready)])
            if exc is not None:
                self.escapes += 1
            self.sock.deliver()
            if (len(self.sock.sent_log), self.sock.recv_total, len(self.events)) == before:
                spin += 1
                if spin > 2 * len(ready) + 4:
                    break
            else:
                spin = 0

    def tx_queue(self):
        enabled = dbus.RECORDER.enabled
        dbus.RECORDER.enabled = False
        try:
            return sorted(int(x) for x in self.hdl.send_bundle_get_queue())
        finally:
            dbus.RECORDER.enabled = enabled

    def conclude(self):
        ''' The bystander's own peer now acknowledges everything: each of its transfers must finish well. '''
        txq = self.tx_queue()
        for _ in range(60):
            self.run()
            (msgs, _c, _s) = codec.parse_stream(bytes(self.sock.sent_log))
            segs = [m for m in msgs if m['t'] == 'SEG']
            if self.acked >= len(segs):
                break
            while self.acked < len(segs):
                seg = segs[self.acked]
                self.acked += 1
                total = (0 if seg['flags'] & codec.SEG_START else self.cum.get(seg['id'], 0)) + seg['len']
                self.cum[seg['id']] = total
                self.peer_send(codec.enc_ack(seg['id'], total, seg['flags']))
        fin = [{'id': clampi(int(args[0])) if args[0].isdigit() else -2, 'result': args[2]}
               for (name, args) in self.events if name == 'send_bundle_finished' and len(args) == 3]
        rejects = len([m for m in codec.parse_stream(bytes(self.sock.sent_log))[0] if m['t'] in ('REJECT', 'TERM')])
        return {'queued': list(self.queued), 'txq': txq, 'fin': fin, 'esc': self.escapes, 'complaints': rejects,
                'closed': bool(self.sock.closed)}


class Adversary(object):

    def __init__(self, world, victim, nown, seed):
        self.w = world
        self.victim = victim
        self.me = world.peer(victim)
        self.sock = world.sock[self.me]
        self.tok = 40          # token for the next data-carrying segment
        self.next_id = 100
        self.open_id = None
        self.acked = 0         # victim segments acknowledged so far
        self.cum = {}
        self.noack = set()     # own transfers of the victim which the adversary has refused instead

    def send(self, octets):
        try:
            self.sock.send(octets)
        except OSError:
            return      # the victim has closed the connection
        self.sock.deliver()

    def settle(self, pops=False):
        w = self.w
        for _ in range(200):
            ran = False
            self.cooperate()
            for which in ('rx', 'tx', 'pq'):
                if w.step(self.victim, which):
                    ran = True
            if not ran and not self.cooperate():
                break

    def cooperate(self):
        ''' ACK every segment the victim has put on the wire. '''
        if getattr(self, 'hold', False):
            return False
        segs = [m for m in self.w.stream_msgs[self.victim] if m['t'] == 'SEG']
        did = False
        while self.acked < len(segs):
            seg = segs[self.acked]
            self.acked += 1
            start = bool(seg['flags'] & codec.SEG_START)
            total = (0 if start else self.cum.get(seg['id'], 0)) + seg['len']
            self.cum[seg['id']] = total
            if seg['id'] in self.noack:
                continue
            self.send(codec.enc_ack(seg['id'], total, seg['flags']))
            did = True
        return did

    def data(self, n):
        self.tok += 1
        return bytes([self.tok % 250 + 1]) * n

    def move(self, name):
        if name == 'seg_nostart_unknown':
            self.send(codec.enc_segment(77, self.data(2), 0))
        elif name == 'seg_end_unknown':
            self.send(codec.enc_segment(78, self.data(1), codec.SEG_END))
        elif name == 'ack_unknown':
            self.send(codec.enc_ack(999, 5, codec.SEG_END))
        elif name == 'ack_finished':
            self.send(codec.enc_ack(1, 0, 0))
        elif name in ('ack_own_end', 'ack_own_mid'):
            # a final ACK of the victim's newest own transfer, whatever its progress: still queued (first move
            # after the send request), being segmented (one queue-processing step, no co-operation), or done
            if name == 'ack_own_mid':
                self.w.step(self.victim, 'pq')
                self.w.step(self.victim, 'tx')
            own = self.w.sent_order[self.victim]
            tid = own[-1] if own else 1
            self.send(codec.enc_ack(tid, 5, codec.SEG_END))
        elif name == 'refuse_sent_unacked':
            # refuse a transfer of the victim which is completely sent but whose final ACK is still owed, while
            # the victim is (if it has more to send) already segmenting the next one
            for _ in range(40):
                segs = [m for m in self.w.stream_msgs[self.victim] if m['t'] == 'SEG']
                pending = [m['id'] for m in segs[self.acked:] if m['flags'] & codec.SEG_END]
                if pending and segs[-1]['id'] != pending[0] and not segs[-1]['flags'] & codec.SEG_END:
                    break       # the next transfer is under way
                self.w.step(self.victim, 'pq')
                self.w.step(self.victim, 'tx')
            if pending:
                self.noack.add(pending[0])
                self.send(codec.enc_refuse(pending[0], 1))
        elif name == 'refuse_unknown':
            self.send(codec.enc_refuse(999, 2))
        # transfer ids of another connection of the same process (see Bystander): unknown to the victim
        elif name == 'ack_other_conn':
            self.send(codec.enc_ack(Bystander.NBUNDLES - 1, 1, codec.SEG_START))
        elif name == 'ack_other_conn_end':
            self.send(codec.enc_ack(Bystander.NBUNDLES, 3, codec.SEG_START | codec.SEG_END))
        elif name == 'refuse_other_conn':
            self.send(codec.enc_refuse(Bystander.NBUNDLES, 1))
        elif name == 'refuse_own':
            self.send(codec.enc_refuse(2, 4))
        elif name == 'unknown_type':
            self.send(bytes([0x09, 1, 2, 3]))
        elif name == 'xfer_ok':
            tid = self.next_id
            self.next_id += 1
            self.send(codec.enc_segment(tid, self.data(2), codec.SEG_START, [codec.ext_total_length(5)]))
            self.send(codec.enc_segment(tid, self.data(3), codec.SEG_END))
            self.open_id = None
        elif name == 'xfer_start':
            tid = self.next_id
            self.next_id += 1
            self.open_id = tid
            self.send(codec.enc_segment(tid, self.data(2), codec.SEG_START, [codec.ext_total_length(4)]))
        elif name in ('xfer_start_2g', 'xfer_start_max'):
            # a legal START whose Transfer Length extension announces a very large bundle (2 GiB / the largest
            # value of the field): whatever the endpoint tells its application about it must fit the signal
            tid = self.next_id
            self.next_id += 1
            self.open_id = tid
            total = 2 ** 31 if name == 'xfer_start_2g' else 2 ** 64 - 1
            self.send(codec.enc_segment(tid, self.data(2), codec.SEG_START, [codec.ext_total_length(total)]))
        elif name == 'xfer_mismatch':
            self.send(codec.enc_segment(self.next_id + 50, self.data(2), 0))
        elif name == 'xfer_cont_end':
            tid = self.open_id if self.open_id is not None else 66
            self.send(codec.enc_segment(tid, self.data(2), codec.SEG_END))
            self.open_id = None
        elif name in ('ka',):
            self.send(codec.enc_keepalive())
        elif name == 'reject_msg':
            self.send(codec.enc_reject(1, 3))
        elif name == 'term':
            self.send(codec.enc_sess_term(0, 0))
        elif name == 'term_twice':
            # two SESS_TERM in one write (a duplicate)
            self.send(codec.enc_sess_term(0, 0) + codec.enc_sess_term(0, 0))
        elif name == 'term_reply':
            # marked as the reply to a SESS_TERM the victim never sent
            self.send(codec.enc_sess_term(0, 1))
        elif name == 'ch_again':
            self.send(codec.enc_contact(0))
        elif name in ('vterm_ack_ka', 'vterm_ack_reject'):
            # the victim's user terminates while a transfer of the victim awaits its acknowledgements; the peer
            # replies SESS_TERM, and then the outstanding ACKs arrive together with one more message (a KEEPALIVE,
            # a MSG_REJECT) in a single write: nothing is outstanding after that read, the victim must close
            self.hold = True
            self.w.user_send(self.victim, self.data(5))
            for _ in range(30):
                self.w.step(self.victim, 'pq')
                self.w.step(self.victim, 'tx')
            self.w.user_terminate(self.victim)
            self.settle()
            self.send(codec.enc_sess_term(0, 1))
            self.settle()
            segs = [m for m in self.w.stream_msgs[self.victim] if m['t'] == 'SEG']
            out = b''
            while self.acked < len(segs):
                seg = segs[self.acked]
                self.acked += 1
                total = (0 if seg['flags'] & codec.SEG_START else self.cum.get(seg['id'], 0)) + seg['len']
                self.cum[seg['id']] = total
                if seg['id'] not in self.noack:
                    out += codec.enc_ack(seg['id'], total, seg['flags'])
            out += codec.enc_keepalive() if name == 'vterm_ack_ka' else codec.enc_reject(4, 1)
            self.hold = False
            self.send(out)
        elif name == 'init_again':
            # a second SESS_INIT in the middle of the session, announcing other parameters
            self.send(codec.enc_sess_init(keepalive=7, seg_mru=50, xfer_mru=2 ** 20, node_id='dtn://someone-else/'))
        elif name == 'seg':
            self.send(codec.enc_segment(5, self.data(1), codec.SEG_START | codec.SEG_END, [codec.ext_total_length(1)]))
        elif name == 'ack':
            self.send(codec.enc_ack(5, 1, codec.SEG_END))
        elif name == 'refuse':
            self.send(codec.enc_refuse(5, 1))
        elif name == 'ack_early_own':
            # names the first transfer the victim's application may already have queued (ids start at 1)
            self.send(codec.enc_ack(1, 3, codec.SEG_END))
        elif name == 'refuse_early_own':
            self.send(codec.enc_refuse(1, 2))
        elif name == 'bad_magic':
            self.send(b'DTN!' + bytes([4, 0]))
        elif name == 'bad_magic_then_good':
            # a contact header with the wrong magic and a valid one behind it in the same write
            self.send(b'xtn!' + bytes([4, 0]) + codec.enc_contact(0))
        elif name == 'bad_version':
            self.send(codec.enc_contact(0, version=3))
        elif name == 'seg_first':
            self.send(codec.enc_segment(5, self.data(1), codec.SEG_START | codec.SEG_END, [codec.ext_total_length(1)]))
        else:
            raise ValueError(name)


def run_script(victim, pre_ch, pre_init, sess, nown=1, seed=0, early=0, xfer_mru=2 ** 40):
    cfg_v = EndCfg('dtn://victim/', seg_mru=64, seg_init=3)
    cfg_o = EndCfg('dtn://peer/')
    world = World(cfg_v if victim == 'A' else cfg_o, cfg_v if victim == 'P' else cfg_o, auto_deliver=False,
                  only=victim)
    adv = Adversary(world, victim, nown, seed)
    other = Bystander() if any(m.endswith('other_conn') or m.endswith('other_conn_end') for m in sess) else None
    world.start(victim)
    adv.settle()
    for name in pre_ch:
        adv.move(name)
        adv.settle()
    adv.send(codec.enc_contact(0))
    adv.settle()
    # the application may queue bundles while the session is still being negotiated
    for k in range(early):
        if not world.sock[victim].closed:
            world.user_send(victim, bytes([190 + k]) * (4 + k))
    for name in pre_init:
        adv.move(name)
        adv.settle()
    # (a peer may announce a Transfer MRU smaller than what the victim's user then queues)
    adv.send(codec.enc_sess_init(keepalive=0, seg_mru=2, xfer_mru=xfer_mru, node_id='dtn://peer/'))
    adv.settle()
    for k in range(nown):
        if not world.sock[victim].closed:
            world.user_send(victim, bytes([200 + k]) * (5 + k))
    for (i, name) in enumerate(sess):
        if i % 2 == 1:
            adv.settle()
        adv.move(name)
        adv.settle()
    adv.settle()
    for _ in range(6):
        if world.user_pop(victim) is None:
            break
    adv.settle()
    world.query(victim)
    if other is not None:
        world.emit('Bystander', victim, i=other.conclude())
    return world.finish({'kind': 'adv', 'real': [victim], 'quiesced': True, 'cooperative': True})


def executions(tier, seed):
    rnd = random.Random(seed * 7 + 3)
    scripts = []
    for victim in ('P', 'A'):
        scripts.append((victim, (), (), ()))
        for m in PRE_CH_MOVES:
            scripts.append((victim, (m,), (), ()))
        for m in PRE_INIT_MOVES:
            scripts.append((victim, (), (m,), ('xfer_ok',)))
            scripts.append((victim, (), (m,), ('xfer_ok', 'early')))
        for pair in itertools.product(PRE_INIT_MOVES, repeat=2):
            scripts.append((victim, (), pair, ('early',)))
        for m in SESS_MOVES:
            scripts.append((victim, (), (), (m,)))
        for pair in itertools.product(SESS_MOVES, repeat=2):
            scripts.append((victim, (), (), pair))
        if tier == 'thorough':
            for trip in itertools.product(SESS_MOVES, repeat=3):
                scripts.append((victim, (), (), trip))
        nrand = 150 if tier == 'quick' else 3000
        for _ in range(nrand):
            n = rnd.randint(3, 8)
            scripts.append((victim, (), tuple(rnd.sample(PRE_INIT_MOVES, rnd.choice([0, 0, 1, 2]))),
                            tuple(rnd.choice(SESS_MOVES) for _ in range(n))))
    traces, metas = [], []
    for (i, (victim, pre_ch, pre_init, sess)) in enumerate(scripts):
        nown = 1 + (i % 2)
        early = 1 + (i % 2) if 'early' in sess else (1 if (pre_init and i % 5 == 0) else 0)
        sess = tuple(m for m in sess if m != 'early')
        xmru = (2 ** 40, 2 ** 40, 5, 2 ** 64 - 1, 2 ** 40, 1)[i % 6]
        traces.append(run_script(victim, pre_ch, pre_init, sess, nown=nown, seed=seed + i, early=early, xfer_mru=xmru))
        metas.append({'victim': victim, 'pre_ch': list(pre_ch), 'pre_init': list(pre_init), 'sess': list(sess),
                      'own_bundles': nown, 'queued_before_session': early, 'peer_transfer_mru': str(xmru)})
    return traces, metas

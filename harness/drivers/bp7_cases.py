''' C02: every structural shape of a bundle (conditional fields, CRC types, extension blocks, status
reports) x boundary field values, both directions:
  Enc  - built with the repository's classes, encoded, read by the independent reader;
  Dec  - written by the independent writer, decoded by the repository, compared, re-encoded. '''
import itertools
import random

import boot  # noqa: F401
from harness.indep import bp7

from bp.encoding import (Bundle, PrimaryBlock, CanonicalBlock, Timestamp, HopCountBlock, PreviousNodeBlock,
                         BundleAgeBlock, AdminRecord, StatusReport, StatusInfoArray, StatusInfo)

INTS = [0, 1, 23, 24, 255, 256, 65535, 65536, 2 ** 32 - 1, 2 ** 32, 2 ** 64 - 1]
# boundary representatives: the null endpoint of either scheme, node-only and service EIDs, large ipn numbers
EIDS = ['dtn:none', 'dtn://node/svc', 'dtn://n/', 'dtn:~neighbor', 'ipn:1.2', 'ipn:4294967296.0', 'dtn://αβγ/x',
        'ipn:0.0', 'ipn:0.1', 'ipn:23.24', 'ipn:18446744073709551615.255']
FLAGBITS = [0x2, 0x4, 0x20, 0x40, 0x4000, 0x10000, 0x20000, 0x40000]


def shapes(tier):
    out = []
    for frag in (False, True):
        for crcp in (0, 1, 2):
            for nblk in (1, 2, 3):
                for crcs in itertools.product((0, 1, 2), repeat=nblk):
                    for admin in (False, True):
                        for (times, rfrag) in (((False, False),) if not admin else
                                               ((False, False), (True, False), (False, True), (True, True))):
                            out.append({'frag': frag, 'crcp': crcp, 'blocks': list(crcs), 'admin': admin,
                                        'times': times, 'rfrag': rfrag})
    return out


def values_for(shape, rnd):
    ''' Concrete field values for a shape (boundary representatives). '''
    pick = lambda: rnd.choice(INTS)  # noqa: E731
    flags = 0
    for bit in FLAGBITS:
        if rnd.random() < 0.4:
            flags |= bit
    if shape['admin']:
        flags |= 0x2
    else:
        flags &= ~0x2
    if shape['frag']:
        flags |= 0x1
    prim = {'flags': flags, 'crc_type': shape['crcp'], 'dest': rnd.choice(EIDS[1:]), 'src': rnd.choice(EIDS),
            'rpt': rnd.choice(EIDS), 'ts_time': pick(), 'ts_seq': pick(), 'lifetime': pick()}
    if shape['frag']:
        prim['frag_off'], prim['total'] = pick(), pick()
    blocks = []
    if len(shape['blocks']) <= 9:
        nums = rnd.sample([2, 3, 23, 24, 255, 256, 65536, 2 ** 32], len(shape['blocks']) - 1)
    else:
        nums = list(range(2, 1 + len(shape['blocks'])))
    kinds = ['hop', 'prev', 'age', 'unknown']
    for (crc, num) in zip(shape['blocks'][:-1], nums):
        kind = rnd.choice(kinds)
        if kind == 'hop':
            btype, data, val = 10, bp7.enc([min(pick(), 2 ** 32), min(pick(), 2 ** 32)]), None
        elif kind == 'prev':
            btype, data = 6, bp7.enc(bp7.text_to_eid(rnd.choice(EIDS[1:])))
        elif kind == 'age':
            btype, data = 7, bp7.enc(pick())
        else:
            btype, data = rnd.choice([192, 255, 1000]), bp7.enc([1, 'x', b'\x00'])
        blocks.append({'type': btype, 'num': num, 'flags': rnd.choice([0, 1, 0x10, 0x17]), 'crc_type': crc, 'data': data})
    if shape['admin']:
        asserted = [rnd.random() < 0.6 for _ in range(4)]
        if not any(asserted):
            asserted[0] = True
        info = [[True, pick()] if (a and shape['times']) else [bool(a)] for a in asserted]
        rep = [info, rnd.choice([0, 1, 6, 9, 15, 255]), bp7.text_to_eid(rnd.choice(EIDS[1:])), [pick(), pick()]]
        if shape['rfrag']:
            rep += [pick(), pick()]
        pay = bp7.enc([1, rep])
    else:
        pay = bytes((i * 9 + 5) % 256 for i in range(rnd.choice([0, 1, 23, 24, 255, 256, 70000])))
    blocks.append({'type': 1, 'num': 1, 'flags': rnd.choice([0, 1]), 'crc_type': shape['blocks'][-1], 'data': pay})
    return prim, blocks


def want_fields(prim, blocks):
    rec = {'ver': '7', 'flags': str(prim['flags']), 'crcp': prim['crc_type'], 'dest': prim['dest'], 'src': prim['src'],
           'rpt': prim['rpt'], 'ts': [str(prim['ts_time']), str(prim['ts_seq'])], 'life': str(prim['lifetime']),
           'frag': [str(prim['frag_off']), str(prim['total'])] if prim['flags'] & 1 else [],
           'blocks': [[str(b['type']), str(b['num']), str(b['flags']), b['crc_type'], bytes(b['data']).hex()[:64],
                       str(len(b['data']))] for b in blocks]}
    return rec


def indep_fields(octets):
    bun = bp7.read_bundle(octets)
    p = bun['primary']
    prim = {'flags': p['flags'], 'crc_type': p['crc_type'], 'dest': p['dest'], 'src': p['src'], 'rpt': p['rpt'],
            'ts_time': p['ts_time'], 'ts_seq': p['ts_seq'], 'lifetime': p['lifetime'], 'frag_off': p['frag_off'],
            'total': p['total']}
    rec = want_fields(prim, bun['blocks'])
    rec['ver'] = str(p['version'])
    return rec, bun


def skeleton(octets, bun, shape):
    ''' What the independent reader sees of the structure. '''
    top = bp7.read_item(octets, 0)
    pay = [i for (i, b) in enumerate(bun['blocks']) if b['type'] == 1]
    srep, sitem = 0, 0
    if shape['admin'] and pay:
        try:
            rec = bp7.to_py(bp7.read_item(bun['blocks'][pay[0]]['data'], 0))
            srep = len(rec[1])
            lens = {len(ent) for ent in rec[1][0] if ent[0]}
            sitem = lens.pop() if len(lens) == 1 else -1
        except Exception:
            srep = -1
    nums = [b['num'] for b in bun['blocks']]
    return {'indef': bool(top.indef), 'nprimary': bun['primary']['nitems'], 'items': [b['nitems'] for b in bun['blocks']],
            'paylast': bool(pay and pay[0] == len(bun['blocks']) - 1), 'payone': bool(pay and bun['blocks'][pay[0]]['num'] == 1),
            'unique': len(set(nums)) == len(nums), 'srep': srep, 'sitem': sitem}


def impl_build(prim, blocks, shape):
    ''' The same bundle built with the repository's classes. '''
    pb = PrimaryBlock(bundle_flags=prim['flags'], crc_type=prim['crc_type'], destination=prim['dest'],
                      source=prim['src'], report_to=prim['rpt'],
                      create_ts=Timestamp(dtntime=prim['ts_time'], seqno=prim['ts_seq']), lifetime=prim['lifetime'])
    if prim['flags'] & 1:
        pb.fragment_offset = prim['frag_off']
        pb.total_app_data_len = prim['total']
    cbs = []
    for b in blocks:
        cbs.append(CanonicalBlock(type_code=b['type'], block_num=b['num'], block_flags=b['flags'],
                                  crc_type=b['crc_type'], btsd=bytes(b['data'])))
    bundle = Bundle(primary=pb, blocks=cbs)
    bundle.update_all_crc()
    return bytes(bundle)


def impl_build_typed(prim, blocks, shape):
    ''' As impl_build, but every block whose type the repository knows is built from its typed
    payload class (the encoders of HopCountBlock, PreviousNodeBlock, BundleAgeBlock, StatusReport)
    instead of from raw block data.  :return: octets or None if no block has a typed form. '''
    pb = PrimaryBlock(bundle_flags=prim['flags'], crc_type=prim['crc_type'], destination=prim['dest'],
                      source=prim['src'], report_to=prim['rpt'],
                      create_ts=Timestamp(dtntime=prim['ts_time'], seqno=prim['ts_seq']), lifetime=prim['lifetime'])
    if prim['flags'] & 1:
        pb.fragment_offset = prim['frag_off']
        pb.total_app_data_len = prim['total']
    cbs = []
    typed = 0
    for b in blocks:
        kw = dict(type_code=b['type'], block_num=b['num'], block_flags=b['flags'], crc_type=b['crc_type'])
        val = bp7.to_py(bp7.read_item(b['data'], 0)) if b['type'] in (6, 7, 10) or (b['type'] == 1 and shape['admin']) else None
        if b['type'] == 10:
            cbs.append(CanonicalBlock(**kw) / HopCountBlock(limit=val[0], count=val[1]))
            typed += 1
        elif b['type'] == 6:
            cbs.append(CanonicalBlock(**kw) / PreviousNodeBlock(node=bp7.eid_to_text(val)))
            typed += 1
        elif b['type'] == 7:
            cbs.append(CanonicalBlock(**kw) / BundleAgeBlock(age=val))
            typed += 1
        elif b['type'] == 1 and shape['admin']:
            rep = val[1]
            names = ('received', 'forwarded', 'delivered', 'deleted')
            info = StatusInfoArray()
            for (name, ent) in zip(names, rep[0]):
                info.setfieldval(name, StatusInfo(status=ent[0], at=(ent[1] if len(ent) == 2 else None)))
            kwargs = dict(status=info, reason_code=rep[1], subj_source=bp7.eid_to_text(rep[2]),
                          subj_ts=Timestamp(dtntime=rep[3][0], seqno=rep[3][1]))
            if len(rep) == 6:
                kwargs.update(fragment_offset=rep[4], payload_len=rep[5])
            cbs.append(CanonicalBlock(**kw) / AdminRecord() / StatusReport(**kwargs))
            typed += 1
        else:
            cbs.append(CanonicalBlock(btsd=bytes(b['data']), **kw))
    if not typed:
        return None
    bundle = Bundle(primary=pb, blocks=cbs)
    bundle.update_all_crc()
    return bytes(bundle)


def impl_fields(bundle):
    p = bundle.primary
    ts = p.create_ts
    flags = int(p.getfieldval('bundle_flags'))
    rec = {'ver': str(p.bp_version), 'flags': str(flags), 'crcp': int(p.getfieldval('crc_type')),
           'dest': str(p.destination), 'src': str(p.source), 'rpt': str(p.report_to),
           'ts': [str(ts.getfieldval('dtntime')), str(ts.getfieldval('seqno'))], 'life': str(p.getfieldval('lifetime')),
           'frag': [str(p.fragment_offset), str(p.total_app_data_len)] if flags & 1 else [], 'blocks': []}
    for b in bundle.blocks:
        data = bytes(b.getfieldval('btsd') or b'')
        rec['blocks'].append([str(b.getfieldval('type_code')), str(b.getfieldval('block_num')),
                              str(int(b.getfieldval('block_flags'))), int(b.getfieldval('crc_type')), data.hex()[:64],
                              str(len(data))])
    return rec


def executions(tier, seed):
    rnd = random.Random(seed * 53 + 2)
    all_shapes = shapes(tier)
    reps = 1 if tier == 'quick' else 6
    if tier == 'quick':
        all_shapes = rnd.sample(all_shapes, 400)
    # many extension blocks: the number of items of the outer (indefinite-length) array crosses the CBOR
    # one-octet head limit at 24 and the two-octet one at 256
    for nblk in ((22, 23, 24, 25, 40) if tier == 'quick' else (21, 22, 23, 24, 25, 26, 40, 254, 255, 256, 257, 300)):
        for crcp in (0, 2):
            all_shapes.append({'frag': False, 'crcp': crcp, 'blocks': [(i + crcp) % 3 for i in range(nblk)],
                               'admin': False, 'times': False, 'rfrag': False})
    traces, metas = [], []
    # bundles an independent encoder can produce whose payload the codec must leave alone or whose flags carry
    # bits it has no name for: fragments of administrative records (the payload is a slice of a record),
    # administrative records of types it does not know (any CBOR value), reserved flag bits
    status = bp7.enc([1, [[[True], [False], [False], [False]], 0, bp7.text_to_eid('dtn://s/x'), [5, 0]]])
    specials = []
    for (o, n) in ((0, 5), (4, 9), (len(status) - 3, 3), (2, 0)):
        specials.append(('fragment of an administrative record [%d,+%d)' % (o, n), 0x3, 0, status[o:o + n], (o, len(status))))
    for (label, val) in (('byte string', b'\x01'), ('byte string that is itself CBOR', bp7.enc([1, 2])), ('text', 'x'),
                         ('unsigned', 24), ('array', [1, 'x', b'']), ('empty array', []), ('map', {1: 2})):
        specials.append(('administrative record of unknown type, value: ' + label, 0x2, 0, bp7.enc([7, val]), None))
    for (bflags, kflags) in ((0x8, 0), (0x200000, 0), (0x200008 | 0x4, 0x8), (0x80, 0x20), (0x100000 | 0x40, 0x28 | 0x1)):
        specials.append(('reserved flag bits %#x / %#x' % (bflags, kflags), bflags, kflags, b'payload', None))
    specials = [sp + (None, None) for sp in specials]
    # blocks of the types the codec has a class for whose block-type-specific data is not what that class expects
    # (e.g. ciphertext, because a confidentiality block targets it): any well-formed CBOR item of another kind,
    # arrays of the wrong size, octets that are no CBOR at all; the block stays opaque and the bundle decodes
    opaque = [('unsigned', bp7.enc(23)), ('negative', bp7.enc(-258)), ('byte string', bp7.enc(b'\xa1\xb2\xc3')),
              ('text', bp7.enc('abc')), ('simple value', b'\xf5'), ('tagged integer', bytes.fromhex('d99a3717')),
              ('float', bytes.fromhex('f93c00')), ('array of one', bp7.enc([1])), ('empty array', bp7.enc([])),
              ('array of five', bp7.enc([1, 2, 3, 4, 5])), ('map', bp7.enc({1: 2})), ('no CBOR', b'\xff\x00\x13'),
              ('two items', bp7.enc(1) + bp7.enc(2)), ('truncated', b'\x82\x01'), ('empty', b''),
              ('EID of unknown scheme', bp7.enc([3, 'x'])), ('EID with integer part', bp7.enc([1, 5])),
              ('ipn with text', bp7.enc([2, 'x']))]
    for btype in (6, 7, 10, 11, 12):
        for (label, data) in opaque:
            specials.append(('block type %d with opaque data: %s' % (btype, label), 0, 0, b'payload', None, (btype, data), None))
    # endpoint IDs whose dtn demux has characters a URI parser takes for a query or fragment
    for eid in ('dtn://node/svc?x=1', 'dtn://node/svc#frag', 'dtn://node/a/b?q=1&r=2#f', 'dtn://node/?', 'dtn://node/~mc/x%20y'):
        specials.append(('endpoint ID ' + eid, 0, 0, b'payload', None, None, eid))
    for (i, (label, bflags, kflags, pay, frag, extblk, eid)) in enumerate(specials):
        for crc in (0, 1, 2):
            prim = {'flags': bflags, 'crc_type': crc, 'dest': eid or 'dtn://node/svc', 'src': eid or 'ipn:1.2',
                    'rpt': eid or 'dtn:none', 'ts_time': 1000 + i, 'ts_seq': crc, 'lifetime': 3600}
            if frag:
                prim['frag_off'], prim['total'] = frag
            (xtype, xdata) = extblk or (192, bp7.enc([1]))
            blocks = [{'type': xtype, 'num': 2, 'flags': kflags, 'crc_type': crc, 'data': xdata},
                      {'type': 1, 'num': 1, 'flags': kflags & ~0x1, 'crc_type': crc, 'data': pay}]
            want = want_fields(prim, blocks)
            octets2 = bp7.write_bundle(prim, blocks)
            try:
                dec = Bundle(octets2)
                ev = {'a': 'Dec', 'decoded': True, 'impl': impl_fields(dec), 'want': want,
                      'same': bytes(dec) == octets2, 'crcs_ok': dec.check_all_crc() == set()}
            except Exception as err:
                ev = {'a': 'Dec', 'decoded': False, 'impl': {}, 'want': want, 'same': False, 'crcs_ok': False,
                      'err': repr(err)[:80]}
            traces.append([ev])
            metas.append({'shape': {'special': label, 'crc': crc}, 'dest': prim['dest'], 'src': prim['src'],
                          'rpt': prim['rpt']})
    for shape in all_shapes:
        for _ in range(reps):
            prim, blocks = values_for(shape, rnd)
            want = want_fields(prim, blocks)
            evs = []
            # implementation encodes
            try:
                octets = impl_build(prim, blocks, shape)
                try:
                    got, bun = indep_fields(octets)
                    evs.append({'a': 'Enc', 'shape': shape, 'readable': True, 'skel': skeleton(octets, bun, shape),
                                'problems': bun['problems'], 'indep': got, 'want': want})
                except bp7.Malformed as err:
                    evs.append({'a': 'Enc', 'shape': shape, 'readable': False, 'skel': {}, 'problems': [str(err)],
                                'indep': {}, 'want': want})
            except Exception as err:
                evs.append({'a': 'Enc', 'shape': shape, 'readable': False, 'skel': {}, 'problems': [repr(err)[:80]],
                            'indep': {}, 'want': want})
            # the same bundle built from the typed block classes
            try:
                octets_t = impl_build_typed(prim, blocks, shape)
            except Exception as err:
                octets_t = b''
                evs.append({'a': 'Enc', 'shape': shape, 'readable': False, 'skel': {}, 'problems': ['typed: ' + repr(err)[:80]],
                            'indep': {}, 'want': want})
            if octets_t:
                try:
                    got, bun = indep_fields(octets_t)
                    evs.append({'a': 'Enc', 'shape': shape, 'readable': True, 'skel': skeleton(octets_t, bun, shape),
                                'problems': bun['problems'], 'indep': got, 'want': want})
                except bp7.Malformed as err:
                    evs.append({'a': 'Enc', 'shape': shape, 'readable': False, 'skel': {}, 'problems': [str(err)],
                                'indep': {}, 'want': want})
            # independent writer encodes, implementation decodes and re-encodes
            octets2 = bp7.write_bundle(prim, blocks)
            try:
                dec = Bundle(octets2)
                evs.append({'a': 'Dec', 'decoded': True, 'impl': impl_fields(dec), 'want': want,
                            'same': bytes(dec) == octets2, 'crcs_ok': dec.check_all_crc() == set()})
            except Exception as err:
                evs.append({'a': 'Dec', 'decoded': False, 'impl': {}, 'want': want, 'same': False, 'crcs_ok': False,
                            'err': repr(err)[:80]})
            traces.append(evs)
            metas.append({'shape': shape, 'dest': prim['dest'], 'src': prim['src'], 'rpt': prim['rpt']})
    return traces, metas

''' Scenarios for the TCPCL agent life cycle (connection bookkeeping, shutdown, stop). '''
import itertools
import random

import boot  # noqa: F401
from harness.drivers.tcpcl_agent_world import AgentWorld

ENDINGS = ['stop A', 'stop P', 'shutdown A', 'shutdown P', 'shutdown A+P', 'shutdown A, stop A', 'shutdown P, stop A',
           'none']


def run_case(nest, nneg, ending, sends=0, seed=0, shuffle=False):
    ''' nest connections are established, then nneg more are made without letting the loops run, then the
    ending is applied and everything runs to quiescence. '''
    rnd = random.Random(seed)
    w = AgentWorld()
    w.listen('P')
    paths = []
    for _ in range(nest):
        paths.append(w.connect('A', 'P'))
    w.run(rnd=rnd if shuffle else None)
    for k in range(sends):
        if paths:
            w.send('A', paths[k % len(paths)], bytes([65 + k]) * (10 + 300 * k))
    if sends:
        w.run(rnd=rnd if shuffle else None, only=rnd.choice([1, 3, 8, 40]))
    for _ in range(nneg):
        w.connect('A', 'P')
    if shuffle and nneg:
        w.run(rnd=rnd, only=rnd.choice([0, 1, 2]))
    w.conns('A')
    w.conns('P')
    for step in [x.strip() for x in ending.replace('+', ',shutdown ').split(',')]:
        if step == 'none':
            continue
        (what, who) = step.split()
        if what == 'shutdown':
            # a connection accepted after the shutdown request is a new session nobody asked to end: out of scope
            w.run_accepts(who)
        getattr(w, what)(who)
        if shuffle:
            w.run(rnd=rnd, only=rnd.choice([0, 2, 6]))
    w.run(rnd=rnd if shuffle else None)
    w.conns('A')
    w.conns('P')
    return w.finish()


def run_term_case(nconn, nterm, who_term, ending, seed, size=3000, steps_after_send=3):
    ''' Transfers are under way on every connection, the user of some connections asks those sessions to
    terminate, then the agent is asked to end: transfers in progress complete unless the ending is stop(). '''
    rnd = random.Random(seed)
    w = AgentWorld()
    w.listen('P')
    paths = [w.connect('A', 'P') for _ in range(nconn)]
    w.run()
    for (k, path) in enumerate(paths):
        w.send('A', path, bytes([70 + k]) * (size + 700 * k))
    w.run(rnd=rnd, only=steps_after_send)
    for path in rnd.sample(paths, min(nterm, len(paths))):
        if who_term == 'A':
            w.terminate('A', path)
        else:
            # the accepting agent numbers its connections in the order it accepted them
            ppaths = sorted(str(p) for p in w.agent['P'].get_connections())
            if ppaths:
                w.terminate('P', rnd.choice(ppaths))
        w.run(rnd=rnd, only=rnd.choice([0, 1, 4]))
    for step in [x.strip() for x in ending.replace('+', ',shutdown ').split(',')]:
        if step == 'none':
            continue
        (what, who) = step.split()
        if what == 'shutdown':
            w.run_accepts(who)
        getattr(w, what)(who)
        w.run(rnd=rnd, only=rnd.choice([0, 2, 6]))
    w.run(rnd=rnd, max_steps=20000)
    w.conns('A')
    w.conns('P')
    return w.finish()


def executions(tier, seed):
    rnd = random.Random(seed * 61 + 7)
    traces, metas = [], []
    for (nest, nneg, ending) in itertools.product(range(0, 4), range(0, 3), ENDINGS):
        if nest + nneg > 4:
            continue
        traces.append(run_case(nest, nneg, ending))
        metas.append({'established': nest, 'not_negotiated': nneg, 'ending': ending, 'order': 'fifo'})
    for i in range(60 if tier == 'quick' else 1500):
        nest, nneg = rnd.randint(0, 4), rnd.randint(0, 2)
        ending = rnd.choice(ENDINGS)
        sends = rnd.choice([0, 0, 1, 3])
        traces.append(run_case(nest, nneg, ending, sends=sends, seed=seed * 1000 + i, shuffle=True))
        metas.append({'established': nest, 'not_negotiated': nneg, 'ending': ending, 'bundles': sends, 'order': 'random'})
    # single sessions asked to terminate while their transfers are in progress, then the agent is asked to end
    k = 0
    for (nconn, nterm, who_term, ending) in itertools.product((1, 2, 3), (1, 2), ('A', 'P'),
                                                              ('shutdown A', 'shutdown P', 'shutdown A+P', 'none')):
        for rep in range(1 if tier == 'quick' else 8):
            k += 1
            steps = [0, 1, 3, 9, 30][(k + rep) % 5]
            traces.append(run_term_case(nconn, nterm, who_term, ending, seed * 977 + k * 31 + rep, steps_after_send=steps))
            metas.append({'established': nconn, 'sessions_terminated_by_user': nterm, 'by': who_term, 'ending': ending,
                          'bundles': nconn, 'steps_after_send': steps, 'rep': rep})
    return traces, metas

''' Scenarios for the TCPCL agent life cycle (connection bookkeeping, shutdown, stop). '''
import itertools
import random

import boot  # noqa: F401
from harness.drivers.tcpcl_agent_world import AgentWorld

ENDINGS = ['stop A', 'stop P', 'shutdown A', 'shutdown P', 'shutdown A+P', 'shutdown A, stop A', 'shutdown P, stop A',
           'none']


def run_case(nest, nneg, ending, sends=0, seed=0, shuffle=False):
    ''' nest connections are established, then nneg more are made without letting the loops run, then the
    ending is applied and everything runs to quiescence. '''
    rnd = random.Random(seed)
    w = AgentWorld()
    w.listen('P')
    paths = []
    for _ in range(nest):
        paths.append(w.connect('A', 'P'))
    w.run(rnd=rnd if shuffle else None)
    for k in range(sends):
        if paths:
            w.send('A', paths[k % len(paths)], bytes([65 + k]) * (10 + 300 * k))
    if sends:
        w.run(rnd=rnd if shuffle else None, only=rnd.choice([1, 3, 8, 40]))
    for _ in range(nneg):
        w.connect('A', 'P')
    if shuffle and nneg:
        w.run(rnd=rnd, only=rnd.choice([0, 1, 2]))
    w.conns('A')
    w.conns('P')
    for step in [x.strip() for x in ending.replace('+', ',shutdown ').split(',')]:
        if step == 'none':
            continue
        (what, who) = step.split()
        if what == 'shutdown':
            # a connection accepted after the shutdown request is a new session nobody asked to end: out of scope
            w.run_accepts(who)
        getattr(w, what)(who)
        if shuffle:
            w.run(rnd=rnd, only=rnd.choice([0, 2, 6]))
    w.run(rnd=rnd if shuffle else None)
    w.conns('A')
    w.conns('P')
    return w.finish()


def executions(tier, seed):
    rnd = random.Random(seed * 61 + 7)
    traces, metas = [], []
    for (nest, nneg, ending) in itertools.product(range(0, 4), range(0, 3), ENDINGS):
        if nest + nneg > 4:
            continue
        traces.append(run_case(nest, nneg, ending))
        metas.append({'established': nest, 'not_negotiated': nneg, 'ending': ending, 'order': 'fifo'})
    for i in range(60 if tier == 'quick' else 1500):
        nest, nneg = rnd.randint(0, 4), rnd.randint(0, 2)
        ending = rnd.choice(ENDINGS)
        sends = rnd.choice([0, 0, 1, 3])
        traces.append(run_case(nest, nneg, ending, sends=sends, seed=seed * 1000 + i, shuffle=True))
        metas.append({'established': nest, 'not_negotiated': nneg, 'ending': ending, 'bundles': sends, 'order': 'random'})
    return traces, metas

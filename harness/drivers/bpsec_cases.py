''' BPSec scenarios (C03 integrity, C16 confidentiality, C12 fail-closed delivery).

A *case* = (producer, COSE kind, AAD scope, alteration class, receiver key state, accept on/off):
  1. a secured bundle is produced - by a real source agent (bp.app.bpsec, default scope) or by the
     independent COSE-context implementation (harness/indep/bpsec_cose.py, any scope);
  2. one field class of the *encoded* bundle is altered (independent reader -> change -> independent
     writer; bundles carry no CRCs so that BPSec, not the CRC gate, is exercised);
  3. a real receiving agent processes it; whether an application consumed the payload (and which
     octets) is the implementation's verdict.
The case record goes to TLC (BpSecCover) which decides from (class, scope, key) whether the operation
had to verify; the receiver's execution also goes to TLC as an ordinary BP trace (BpObs, C12).
'''
import datetime
import hashlib
import itertools
import random
import re

import boot  # noqa: F401
boot.import_oscrypto()
import asn1  # noqa: E402
from cryptography import x509  # noqa: E402
from cryptography.hazmat.primitives import hashes  # noqa: E402
from cryptography.hazmat.primitives.asymmetric import ec  # noqa: E402
from pycose import algorithms  # noqa: E402
from pycose.keys import SymmetricKey, keyops, keyparam  # noqa: E402

from harness.indep import bp7, bpsec_cose as cose  # noqa: E402
from harness.drivers import bp_world  # noqa: E402
from harness.drivers.bp_world import BpWorld  # noqa: E402
from harness.drivers.bp_cases import mk, blk, unknown, hop_count, F, PROBE  # noqa: E402

from bp.app.bpsec import SecAssociation, SecOperation, BPSEC_COSE_CONTEXT_ID  # noqa: E402

SRC_NODE = 'dtn://src/'
KEYS = {
    'mac': bytes(range(1, 33)),
    'wrap': bytes(range(40, 56)),
    'enc': bytes(range(70, 86)),
}
WRONG = {k: bytes((b ^ 0x5A) for b in v) for (k, v) in KEYS.items()}
KID = {'mac': b'mac-key', 'wrap': b'wrap-key', 'enc': b'enc-key'}
INTEGRITY_KINDS = ('mac0', 'macwrap', 'sign1')
CONF_KINDS = ('enc0', 'encwrap')
# creation time inside the certificates' validity (DTN time, ms since 2000-01-01)
TS0 = int((datetime.datetime(2025, 3, 1, tzinfo=datetime.timezone.utc)
           - datetime.datetime(2000, 1, 1, tzinfo=datetime.timezone.utc)).total_seconds() * 1000)


def sym(name, which=KEYS):
    alg, ops = {
        'mac': (algorithms.HMAC256, [keyops.MacCreateOp, keyops.MacVerifyOp]),
        'wrap': (algorithms.A128KW, [keyops.WrapOp, keyops.UnwrapOp]),
        'enc': (algorithms.A128GCM, [keyops.EncryptOp, keyops.DecryptOp]),
    }[name]
    return SymmetricKey(k=which[name], optional_params={keyparam.KpKid: KID[name], keyparam.KpAlg: alg,
                                                        keyparam.KpKeyOps: ops})


_PKI = {}


def pki():
    ''' CA + end-entity certificate for the security source (as in the repository's own tests). '''
    if _PKI:
        return _PKI
    ca_key = ec.generate_private_key(ec.SECP256R1())
    ee_key = ec.generate_private_key(ec.SECP256R1())
    t0 = datetime.datetime(2020, 1, 1, tzinfo=datetime.timezone.utc)
    t1 = datetime.datetime(2035, 1, 1, tzinfo=datetime.timezone.utc)
    ca_name = x509.Name([x509.NameAttribute(x509.oid.NameOID.COMMON_NAME, 'CA')])
    ca = x509.CertificateBuilder().subject_name(ca_name).issuer_name(ca_name).public_key(ca_key.public_key()) \
        .serial_number(11).not_valid_before(t0).not_valid_after(t1) \
        .add_extension(x509.BasicConstraints(ca=True, path_length=1), critical=True) \
        .add_extension(x509.KeyUsage(False, False, False, False, False, True, True, False, False), critical=False) \
        .add_extension(x509.SubjectKeyIdentifier.from_public_key(ca_key.public_key()), critical=False) \
        .add_extension(x509.AuthorityKeyIdentifier.from_issuer_public_key(ca_key.public_key()), critical=False) \
        .sign(ca_key, hashes.SHA256())
    enc = asn1.Encoder()
    enc.start()
    enc.write(SRC_NODE.encode('ascii'), asn1.Numbers.IA5String)
    sans = [x509.OtherName(x509.oid.ObjectIdentifier('1.3.6.1.5.5.7.8.11'), enc.output())]
    ee = x509.CertificateBuilder() \
        .subject_name(x509.Name([x509.NameAttribute(x509.oid.NameOID.COMMON_NAME, 'end-entity')])) \
        .issuer_name(ca.issuer).public_key(ee_key.public_key()).serial_number(12) \
        .not_valid_before(t0).not_valid_after(t1) \
        .add_extension(x509.BasicConstraints(ca=False, path_length=None), critical=True) \
        .add_extension(x509.SubjectAlternativeName(sans), critical=False) \
        .add_extension(x509.KeyUsage(True, False, False, False, False, False, False, False, False), critical=False) \
        .add_extension(x509.ExtendedKeyUsage([x509.oid.ObjectIdentifier('1.3.6.1.5.5.7.3.35')]), critical=False) \
        .add_extension(x509.SubjectKeyIdentifier.from_public_key(ee_key.public_key()), critical=False) \
        .add_extension(x509.AuthorityKeyIdentifier.from_issuer_public_key(ca_key.public_key()), critical=False) \
        .sign(ca_key, hashes.SHA256())
    _PKI.update(ca_key=ca_key, ca=ca, ee_key=ee_key, ee=ee)
    return _PKI


def ctx_of(world):
    return world.agent._app['bpsec']._contexts[BPSEC_COSE_CONTEXT_ID]


def source_setup(kind, target_types=(1,)):
    def setup(world):
        ctx = ctx_of(world)
        for name in KEYS:
            key = sym(name)
            ctx.sym_key_store[key.kid] = key
        any_pat = re.compile('.*')
        if kind == 'mac0':
            op = SecOperation(sec_type='bib', role='source', priv_key_id=KID['mac'])
        elif kind == 'macwrap':
            op = SecOperation(sec_type='bib', role='source', priv_key_id=KID['wrap'], content_alg=algorithms.HMAC256,
                              content_key=bytes(range(100, 132)))
        elif kind == 'sign1':
            p = pki()
            ctx._ca_certs = [p['ca']]
            ctx._cert_chain = [p['ee']]
            key = ctx.extract_cose_key(p['ee_key'])
            key.kid = b'sign-key'
            key.key_ops = [keyops.SignOp]
            ctx.asym_key_store[key.kid] = key
            op = SecOperation(sec_type='bib', role='source', priv_key_id=key.kid)
        elif kind == 'enc0':
            op = SecOperation(sec_type='bcb', role='source', priv_key_id=KID['enc'], content_iv=[b'IV-012345678'] * 4)
        elif kind == 'encwrap':
            op = SecOperation(sec_type='bcb', role='source', priv_key_id=KID['wrap'], content_alg=algorithms.A128GCM,
                              content_key=bytes(range(150, 166)), content_iv=[b'IV-abcdefghi'] * 4)
        else:
            raise ValueError(kind)
        ctx.sec_assoc.append(SecAssociation(src_pat=any_pat, dst_pat=any_pat, tgt_blk_types=list(target_types),
                                            templates=[op]))
    return setup


def dest_setup(keymode):
    def setup(world):
        ctx = ctx_of(world)
        if keymode != 'absent':
            which = KEYS if keymode == 'right' else WRONG
            for name in KEYS:
                key = sym(name, which)
                ctx.sym_key_store[key.kid] = key
        p = pki()
        if keymode == 'right':
            ctx._ca_certs = [p['ca']]
        elif keymode == 'wrong':
            # an unrelated trust anchor
            other = ec.generate_private_key(ec.SECP256R1())
            name = x509.Name([x509.NameAttribute(x509.oid.NameOID.COMMON_NAME, 'Other CA')])
            t0 = datetime.datetime(2020, 1, 1, tzinfo=datetime.timezone.utc)
            ctx._ca_certs = [x509.CertificateBuilder().subject_name(name).issuer_name(name).public_key(other.public_key())
                             .serial_number(99).not_valid_before(t0)
                             .not_valid_after(t0 + datetime.timedelta(days=9000))
                             .add_extension(x509.BasicConstraints(ca=True, path_length=1), critical=True)
                             .sign(other, hashes.SHA256())]
    return setup


_CAPTURE = []
_orig_clout = BpWorld.on_clout


def _capturing_clout(self, data, tx_params):
    _CAPTURE.append(bytes(data))
    return _orig_clout(self, data, tx_params)


BpWorld.on_clout = _capturing_clout


def base_bundle(k, payload_len=5, with_other=True, target_ext=False, ts0=None):
    ''' Unsecured bundle from the security source to the probe application. '''
    ts0 = TS0 if ts0 is None else ts0
    ext = []
    if with_other:
        ext.append(unknown(7, 2, flags=0))
    if target_ext:
        ext.append(blk(193, 5, bp7.enc([9, 'ext-target']), flags=0))
    pay = bytes((i * 11 + k) % 251 for i in range(payload_len))
    return mk(src=SRC_NODE + 'app', dest=PROBE, rpt='dtn://rpt/r', ts=(ts0 + k, k % 5), flags=F['DELREP'] | F['DLVREP'],
              pay=pay, crc=0, ext=ext), pay


_PRODUCED = {}


def produce_by_repo(kind, k, payload_len=5, target_types=(1,)):
    ''' Secured bundle octets from a real source agent. '''
    key = (kind, k, payload_len, tuple(target_types))
    if key in _PRODUCED:
        return _PRODUCED[key]
    octets, pay = base_bundle(k, payload_len, target_ext=(193 in target_types))
    del _CAPTURE[:]
    world = BpWorld(node_id=SRC_NODE, tx_routes=[('dtn://', 'next', None)], setup=source_setup(kind, target_types))
    world.send(octets)
    world.run_idle()
    outs = [o for o in _CAPTURE]
    if len(outs) != 1:
        raise RuntimeError('source agent produced %d bundles for kind %s' % (len(outs), kind))
    _PRODUCED[key] = (outs[0], pay)
    return _PRODUCED[key]


SCOPES = {
    'default': {0: 1, -1: 1},
    'with_sec': {0: 1, -1: 1, -2: 1},
    'other_meta': {0: 1, -1: 1, 7: 1},
    'other_btsd': {0: 1, -1: 1, 7: 2},
    'other_both': {0: 1, -1: 1, 7: 3},
    'target_only': {-1: 1},
    'none': {},
    'absent': None,        # no scope parameter: the context default (primary, target, security block)
}


def produce_independent(kind, scope_name, k, payload_len=5, target_num=1):
    ''' Secured bundle from the independent COSE-context implementation (mac0 / enc0). '''
    octets, pay = base_bundle(k, payload_len, target_ext=(target_num != 1))
    bun = bp7.read_bundle(octets)
    scope = SCOPES[scope_name]
    params = [] if scope is None else [(cose.PARAM_AAD_SCOPE, scope)]
    sec_type = 11 if kind == 'mac0' else 12
    sec_block = {'type': sec_type, 'num': 9, 'flags': 0, 'crc_type': 0, 'data': b''}
    asb = {'params': dict(params), 'source_raw': bp7.text_to_eid(SRC_NODE)}
    tgt = [b for b in bun['blocks'] if b['num'] == target_num][0]
    aad = cose.external_aad(octets, bun, sec_block, asb, tgt)
    blocks = [dict(b) for b in bun['blocks']]
    if kind == 'mac0':
        msg = cose.mac0_message(KEYS['mac'], 5, KID['mac'], aad, tgt['data'])
        rid = cose.TAG_MAC0
    else:
        msg, ct = cose.enc0_message(KEYS['enc'], 1, KID['enc'], b'IV-indep-012', aad, tgt['data'])
        rid = cose.TAG_ENC0
        for b in blocks:
            if b['num'] == target_num:
                b['data'] = ct
    sec_block['data'] = cose.write_asb([target_num], cose.CTX_COSE, SRC_NODE, params, [[(rid, msg)]])
    blocks.insert(len(blocks) - 1, sec_block)
    return bp7.write_bundle(bun['primary'], blocks), (tgt['data'] if target_num != 1 else pay)


def produce_independent_multi(kind, layout, k, payload_len=5):
    ''' Two security operations of the same kind over the extension block 5 and the payload (in that order), by
    the independent implementation: layout 'one_block' = one security block with two targets,
    'two_blocks' = two security blocks (as from two security sources) with one target each. '''
    octets, pay = base_bundle(k, payload_len, target_ext=True)
    bun = bp7.read_bundle(octets)
    sec_type = 11 if kind == 'mac0' else 12
    blocks = [dict(b) for b in bun['blocks']]
    groups = [[5, 1]] if layout == 'one_block' else [[5], [1]]
    new_blocks = []
    for (gi, targets) in enumerate(groups):
        sec_block = {'type': sec_type, 'num': 9 + gi, 'flags': 0, 'crc_type': 0, 'data': b''}
        asb = {'params': {}, 'source_raw': bp7.text_to_eid(SRC_NODE)}
        results = []
        for tnum in targets:
            tgt = [b for b in bun['blocks'] if b['num'] == tnum][0]
            aad = cose.external_aad(octets, bun, sec_block, asb, tgt)
            if kind == 'mac0':
                msg = cose.mac0_message(KEYS['mac'], 5, KID['mac'], aad, tgt['data'])
                results.append([(cose.TAG_MAC0, msg)])
            else:
                msg, ct = cose.enc0_message(KEYS['enc'], 1, KID['enc'], b'IV-multi-%03d' % (tnum + 10 * gi), aad,
                                            tgt['data'])
                results.append([(cose.TAG_ENC0, msg)])
                for b in blocks:
                    if b['num'] == tnum:
                        b['data'] = ct
        sec_block['data'] = cose.write_asb(targets, cose.CTX_COSE, SRC_NODE, [], results)
        new_blocks.append(sec_block)
    for sb in new_blocks:
        blocks.insert(len(blocks) - 1, sb)
    return bp7.write_bundle(bun['primary'], blocks), pay


# ---------------------------------------------------------------------------- alterations
def _rewrite(bun, primary=None, blocks=None):
    return bp7.write_bundle(primary or bun['primary'], blocks if blocks is not None else bun['blocks'])


def _sec_index(bun):
    return [i for (i, b) in enumerate(bun['blocks']) if b['type'] in (11, 12)][0]


def _edit_asb(bun, fn):
    ''' Re-write the security block after editing its parsed structure with fn(asb dict). '''
    i = _sec_index(bun)
    sb = bun['blocks'][i]
    asb = cose.read_asb(sb['data'])
    fn(asb)
    params = list(asb['params'].items()) if (asb['params'] or asb.get('force_params')) else None
    data = cose.write_asb(asb['targets'], asb['ctx'], asb['source'], params, asb['results'])
    blocks = [dict(b) for b in bun['blocks']]
    blocks[i]['data'] = data
    return blocks


def _edit_msg(msg_octets, fn):
    msg = bp7.to_py(bp7.read_item(msg_octets, 0))
    fn(msg)
    return bp7.enc(msg)


def alter(octets, cls, target_num=1):
    ''' Apply the alteration class to the encoded bundle. :return: new octets or None if not applicable. '''
    bun = bp7.read_bundle(octets)
    p = dict(bun['primary'])
    blocks = [dict(b) for b in bun['blocks']]

    def block(num):
        for b in blocks:
            if b['num'] == num:
                return b
        return None
    sec = blocks[_sec_index(bun)]
    tgt = block(target_num)
    if cls == 'none':
        return octets
    if cls == 'pri.flags':
        p['flags'] ^= F['ACKREQ']
    elif cls == 'pri.src':
        p['src'] = p['src'] + 'x'
    elif cls == 'pri.rpt':
        p['rpt'] = 'dtn://rpt/other'
    elif cls == 'pri.ts':
        p['ts_seq'] += 1
    elif cls == 'pri.lifetime':
        p['lifetime'] += 1
    elif cls == 'pri.crc':
        p['crc_type'] = 1
    elif cls == 'pri.flags.rsv':
        p['flags'] ^= 0x8           # a bundle flag bit RFC 9171 leaves unassigned
    elif cls == 'tgt.flags.rsv':
        tgt['flags'] ^= 0x20        # a block flag bit RFC 9171 leaves unassigned
    elif cls == 'tgt.flags':
        tgt['flags'] ^= 0x10
    elif cls == 'tgt.crc':
        tgt['crc_type'] = 2
    elif cls == 'tgt.data':
        data = bytearray(tgt['data'])
        if data:
            data[0] ^= 1
        else:
            data = bytearray(b'\x00')
        tgt['data'] = bytes(data)
    elif cls == 'tgt.num':
        if target_num == 1:
            return None
        tgt['num'] = 6
        blocks = _edit_asb(dict(bun, blocks=blocks), lambda a: a.__setitem__('targets', [6]))
    elif cls == 'tgt.type':
        if target_num == 1:
            return None
        tgt['type'] = 194
    elif cls == 'sec.flags':
        sec['flags'] ^= 0x10
    elif cls == 'sec.num':
        sec['num'] = 12
    elif cls == 'other.meta':
        block(7)['flags'] ^= 0x10
    elif cls == 'other.data':
        block(7)['data'] = block(7)['data'] + b'\x00'
    elif cls == 'sec.source':
        blocks = _edit_asb(bun, lambda a: a.__setitem__('source', 'dtn://src2/'))
    elif cls == 'sec.scope':
        def fn(a):
            cur = a['params'].get(cose.PARAM_AAD_SCOPE)
            new = dict(cur) if isinstance(cur, dict) else {0: 1, -1: 1, -2: 1}
            new[0] = new.get(0, 0) ^ 1
            a['params'][cose.PARAM_AAD_SCOPE] = new
            a['force_params'] = True
        blocks = _edit_asb(bun, fn)
    elif cls == 'sec.protected':
        def fn(a):
            a['params'][cose.PARAM_ADDL_PROTECTED] = bp7.enc({})
            a['force_params'] = True
        blocks = _edit_asb(bun, fn)
    elif cls in ('res.tag', 'res.alg', 'res.kid'):
        def fn(a):
            (rid, val) = a['results'][0][0]

            def edit(msg):
                if cls == 'res.tag':
                    last = msg[-1]
                    if isinstance(last, bytes) and last:
                        msg[-1] = last[:-1] + bytes([last[-1] ^ 1])
                    elif isinstance(last, list):       # COSE_Mac / COSE_Encrypt: recipients last, tag before
                        if isinstance(msg[-2], bytes) and msg[-2]:
                            msg[-2] = msg[-2][:-1] + bytes([msg[-2][-1] ^ 1])
                        else:
                            rec = msg[-1][0]
                            rec[2] = rec[2][:-1] + bytes([rec[2][-1] ^ 1])
                    else:
                        raise ValueError('no tag')
                elif cls == 'res.alg':
                    hdr = bp7.to_py(bp7.read_item(msg[0], 0))
                    hdr[1] = {5: 6, 6: 5, 1: 3, 3: 1, -7: -35}.get(hdr.get(1), 5)
                    msg[0] = bp7.enc(hdr)
                else:
                    def rekid(h):
                        if isinstance(h, dict) and 4 in h:
                            h[4] = b'other-kid'
                            return True
                        return False
                    if not rekid(msg[1]):
                        if isinstance(msg[-1], list) and msg[-1] and isinstance(msg[-1][0], list):
                            if not rekid(msg[-1][0][1]):
                                raise ValueError('no kid')
                        else:
                            raise ValueError('no kid')
            a['results'][0][0] = (rid, _edit_msg(val, edit))
        try:
            blocks = _edit_asb(bun, fn)
        except ValueError:
            return None
    elif cls == 'tgt.data+attached':
        # the target content is altered while the genuine content rides along inside the COSE message (whose
        # payload must be detached): a verifier that trusts the embedded copy accepts the altered block
        genuine = bytes(tgt['data'])
        if not genuine:
            return None

        def fn(a):
            (rid, val) = a['results'][0][0]

            def edit(msg):
                if len(msg) < 3 or msg[2] is not None:
                    raise ValueError('no detached payload slot')
                msg[2] = genuine
            a['results'][0][0] = (rid, _edit_msg(val, edit))
        try:
            blocks = _edit_asb(bun, fn)
        except ValueError:
            return None
        for b in blocks:
            if b['num'] == target_num:
                b['data'] = genuine[:-1] + bytes([genuine[-1] ^ 1])
    else:
        raise ValueError(cls)
    return bp7.write_bundle(p, blocks)


CLASSES = ['none', 'pri.flags', 'pri.src', 'pri.rpt', 'pri.ts', 'pri.lifetime', 'pri.crc', 'tgt.flags', 'tgt.crc',
           'tgt.data', 'tgt.num', 'tgt.type', 'sec.flags', 'sec.num', 'other.meta', 'other.data', 'sec.source',
           'sec.scope', 'sec.protected', 'res.tag', 'res.alg', 'res.kid', 'tgt.data+attached', 'pri.flags.rsv',
           'tgt.flags.rsv']


def scope_record(scope):
    ''' AAD scope as the TLA+ side wants it: which references carry which flag. '''
    eff = {0: 1, -1: 1, -2: 1} if scope is None else scope
    return {'pri_meta': bool(eff.get(0, 0) & 1), 'tgt_meta': bool(eff.get(-1, 0) & 1), 'tgt_btsd': bool(eff.get(-1, 0) & 2),
            'sec_meta': bool(eff.get(-2, 0) & 1), 'oth_meta': bool(eff.get(7, 0) & 1), 'oth_btsd': bool(eff.get(7, 0) & 2)}


def _bib_is_encrypted(octets):
    ''' Does a confidentiality block of the bundle name an integrity block among its targets (RFC 9172 3.9)?
    Read independently of the code under test. '''
    try:
        bun = bp7.read_bundle(octets)
        types = {b['num']: b['type'] for b in bun['blocks']}
        for b in bun['blocks']:
            if b['type'] == 12 and any(types.get(t) == 11 for t in cose.read_asb(b['data'])['targets']):
                return True
    except Exception:
        pass
    return False


def receive(octets, keymode='right', accept=False, sec='none', plain='', nsec=0):
    ''' Run a receiving agent over the bundle. :return: (bp trace, dict(delivered, pay, sec_left, reason)) '''
    world = BpWorld(node_id='dtn://node/', rx_routes=[(PROBE, 'deliver')], tx_routes=[('dtn://rpt/', 'dtn://rpt/', None)],
                    accept=accept, setup=dest_setup(keymode))
    world.recv(octets, sec=sec, plain=plain, nsec=nsec, encbib=_bib_is_encrypted(octets))
    world.run_idle()
    cons = [ev for ev in world.log if ev['a'] == 'Consume']
    reps = [ev['b']['report'][0] for ev in world.log if ev['a'] == 'ClOut' and ev['b']['report']]
    res = {'delivered': bool(cons), 'pay': cons[0]['pay'] if cons else '', 'sec_left': cons[0]['sec_left'] if cons else -1,
           'deleted': any('deleted' in r.get('asserted', []) for r in reps),
           'reason': max([r.get('reason', 0) for r in reps] or [0])}
    return world.finish({}), res


def dig(data):
    return hashlib.sha256(bytes(data)).hexdigest()[:12]


def cover_cases(tier, seed, kinds):
    ''' Enumerate cases. :return: (case events for BpSecCover, bp traces, metas) '''
    rnd = random.Random(seed * 37 + 3)
    events, traces, metas = [], [], []
    k = 0
    plan = []
    for kind in kinds:
        conf = kind in CONF_KINDS
        for cls in CLASSES:
            for keymode in ('right',):
                plan.append(('repo', kind, 'default', cls, keymode, 1))
        for keymode in ('wrong', 'absent'):
            plan.append(('repo', kind, 'default', 'none', keymode, 1))
        plan.append(('repo', kind, 'default', 'tgt.num', 'right', 5) if not conf else ('repo', kind, 'default', 'none', 'right', 1))
        plan.append(('repo', kind, 'default', 'tgt.type', 'right', 5) if not conf else ('repo', kind, 'default', 'tgt.data', 'right', 1))
    for kind in [x for x in kinds if x in ('mac0', 'enc0')]:
        for scope_name in SCOPES:
            for cls in CLASSES:
                plan.append(('indep', kind, scope_name, cls, 'right', 1))
            plan.append(('indep', kind, scope_name, 'none', 'wrong', 1))
            plan.append(('indep', kind, scope_name, 'tgt.num', 'right', 5))
            plan.append(('indep', kind, scope_name, 'tgt.type', 'right', 5))
    # several operations in one bundle: one security block with two targets, and two security blocks; the
    # alteration hits the first or the last target (what one operation finds must not be lost by the next)
    multi = []
    for kind in [x for x in kinds if x in ('mac0', 'enc0')]:
        for layout in ('one_block', 'two_blocks'):
            for tnum in (5, 1):
                for cls in ('none', 'tgt.data', 'tgt.flags', 'tgt.crc'):
                    for acc in (False, True):
                        multi.append(('multi', kind, layout, cls, 'right', tnum, acc))
            multi.append(('multi', kind, layout, 'none', 'wrong', 1, True))
    for kind in [x for x in kinds if x in ('mac0', 'sign1', 'enc0', 'encwrap')]:
        for tnum in (5, 1):
            for cls in ('none', 'tgt.data', 'tgt.flags'):
                multi.append(('repo2', kind, 'default', cls, 'right', tnum, tnum == 1))
    if tier == 'quick' and len(plan) > 420:
        must = [p for p in plan if p[3] == 'none' or p[0] == 'repo']
        rest = [p for p in plan if p not in must]
        plan = must + rnd.sample(rest, max(0, 420 - len(must)))
    plan = [p + (None,) for p in plan] + multi
    if tier == 'thorough':
        # every case with acceptance off and on, and three rounds (other bundle, other payload length)
        plan = [p[:6] + (acc,) for _round in range(3) for p in plan for acc in (False, True)]
    lens = [0, 1, 5, 15, 16, 17, 1000]
    for (producer, kind, scope_name, cls, keymode, target_num, force_accept) in plan:
        k += 1
        plen = lens[k % len(lens)] if (kind in CONF_KINDS or cls == 'none' or tier == 'thorough') else 5
        try:
            if producer == 'repo':
                ttypes = (1,) if target_num == 1 else (193,)
                octets, plain = produce_by_repo(kind, k % 3, plen, ttypes)
                scope = SCOPES['default']
            elif producer == 'repo2':
                # one security block over the extension block and the payload, produced by the real source agent
                octets, plain = produce_by_repo(kind, k % 3, plen, (193, 1))
                scope = SCOPES['default']
            elif producer == 'multi':
                octets, plain = produce_independent_multi(kind, scope_name, k % 3, plen)
                scope = SCOPES['absent']
            else:
                octets, plain = produce_independent(kind, scope_name, k % 3, plen, target_num)
                scope = SCOPES[scope_name]
        except Exception as err:
            raise RuntimeError('cannot produce %s/%s: %r' % (producer, kind, err))
        mutated = alter(octets, cls, target_num)
        if mutated is None:
            continue
        accept = bool(k % 2) if force_accept is None else force_accept
        keys = {KID[n]: (KEYS if keymode == 'right' else WRONG)[n] for n in KEYS} if keymode != 'absent' else {}
        indep = cose.verify_bundle(mutated, keys)
        conf = kind in CONF_KINDS
        wire_is_plain = False
        if conf:
            wbun = bp7.read_bundle(octets)
            wire_is_plain = [b for b in wbun['blocks'] if b['num'] == target_num][0]['data'] == plain and len(plain) > 0
        try:
            nsec = sum(1 for b in bp7.read_bundle(mutated)['blocks'] if b['type'] in (11, 12))
        except bp7.Malformed:
            nsec = 1
        trace, res = receive(mutated, keymode, accept, sec='unknown', plain='', nsec=nsec)
        # for the BP-level trace (C12) the generator's knowledge of the verdict is the independent one where
        # available, otherwise "good" exactly for the unaltered bundle with the right key
        events.append({'a': 'Case', 'producer': producer, 'kind': kind, 'scope': scope_record(scope), 'cls': cls,
                       'keyok': keymode == 'right', 'delivered': res['delivered'], 'deleted': res['deleted'],
                       'reason': res['reason'], 'indep': indep['verdict'], 'conf': conf, 'wire_plain': wire_is_plain,
                       'accept': accept, 'got_plain': (res['pay'] == dig(plain)) if res['delivered'] else False,
                       'target_is_payload': target_num == 1, 'plen': len(plain)})
        traces.append(trace)
        metas.append({'producer': producer, 'kind': kind, 'scope': scope_name, 'altered': cls, 'key': keymode,
                      'accept': accept, 'target': target_num})
    events.append({'a': 'End', 'kinds': list(kinds)})
    return events, traces, metas


# ---------------------------------------------------------------------------- C12
def _mac0_block(octets, bun, target_num, num, scope=None, key=None, kid=None, tamper=None):
    ''' An independently built BIB (COSE_Mac0) over block ``target_num``. '''
    scope = {0: 1, -1: 1} if scope is None else scope
    params = [(cose.PARAM_AAD_SCOPE, scope)]
    sec_block = {'type': 11, 'num': num, 'flags': 0, 'crc_type': 0, 'data': b''}
    asb = {'params': dict(params), 'source_raw': bp7.text_to_eid(SRC_NODE)}
    tgt = [b for b in bun['blocks'] if b['num'] == target_num][0]
    aad = cose.external_aad(octets, bun, sec_block, asb, tgt)
    msg = cose.mac0_message(key or KEYS['mac'], 5, kid or KID['mac'], aad, tgt['data'])
    if tamper == 'tag':
        msg = msg[:-1] + bytes([msg[-1] ^ 1])
    sec_block['data'] = cose.write_asb([target_num], cose.CTX_COSE, SRC_NODE, params, [[(cose.TAG_MAC0, msg)]])
    return sec_block, params, msg


def c12_bundle(variant, k):
    ''' :return: (octets, label 'good'|'bad'|'none', number of security blocks, payload) '''
    octets, pay = base_bundle(k, payload_len=[0, 1, 5, 40][k % 4])
    bun = bp7.read_bundle(octets)
    blocks = [dict(b) for b in bun['blocks']]

    def assemble(secs):
        out = [dict(b) for b in bun['blocks']]
        for sb in secs:
            out.insert(len(out) - 1, sb)
        return bp7.write_bundle(bun['primary'], out)
    if variant == 'none':
        return octets, 'none', 0, pay
    sb, params, msg = _mac0_block(octets, bun, 1, 9)
    if variant == 'good':
        return assemble([sb]), 'good', 1, pay
    if variant == 'bad_tag':
        sb2, _p, _m = _mac0_block(octets, bun, 1, 9, tamper='tag')
        return assemble([sb2]), 'bad', 1, pay
    if variant == 'ctx99':
        sb['data'] = cose.write_asb([1], 99, SRC_NODE, params, [[(cose.TAG_MAC0, msg)]])
        return assemble([sb]), 'bad', 1, pay
    if variant == 'missing_target':
        sb['data'] = cose.write_asb([8], cose.CTX_COSE, SRC_NODE, params, [[(cose.TAG_MAC0, msg)]])
        return assemble([sb]), 'bad', 1, pay
    if variant == 'dup_param':
        sb['data'] = cose.write_asb([1], cose.CTX_COSE, SRC_NODE, params + params, [[(cose.TAG_MAC0, msg)]])
        return assemble([sb]), 'bad', 1, pay
    if variant == 'dup_result':
        sb['data'] = cose.write_asb([1], cose.CTX_COSE, SRC_NODE, params, [[(cose.TAG_MAC0, msg), (cose.TAG_MAC0, msg)]])
        return assemble([sb]), 'bad', 1, pay
    if variant == 'two_results_kinds':
        sb['data'] = cose.write_asb([1], cose.CTX_COSE, SRC_NODE, params, [[(cose.TAG_MAC0, msg), (cose.TAG_SIGN1, msg)]])
        return assemble([sb]), 'bad', 1, pay
    if variant == 'garbled_cose':
        sb['data'] = cose.write_asb([1], cose.CTX_COSE, SRC_NODE, params, [[(cose.TAG_MAC0, b'\xff\x00\x13garbage')]])
        return assemble([sb]), 'bad', 1, pay
    if variant == 'cose_wrong_shape':
        sb['data'] = cose.write_asb([1], cose.CTX_COSE, SRC_NODE, params, [[(cose.TAG_MAC0, bp7.enc([1, 2]))]])
        return assemble([sb]), 'bad', 1, pay
    if variant == 'garbled_asb':
        sb['data'] = b'\x81\x01\xff\xff\x00'
        return assemble([sb]), 'bad', 1, pay
    if variant == 'truncated_asb':
        sb['data'] = sb['data'][:len(sb['data']) // 2]
        return assemble([sb]), 'bad', 1, pay
    if variant == 'two_good':
        sb2, _p, _m = _mac0_block(octets, bun, 7, 10)
        return assemble([sb, sb2]), 'good', 2, pay
    if variant == 'second_bad':
        sb2, _p, _m = _mac0_block(octets, bun, 7, 10, tamper='tag')
        return assemble([sb, sb2]), 'bad', 2, pay
    if variant == 'first_bad':
        sb1, _p, _m = _mac0_block(octets, bun, 1, 9, tamper='tag')
        sb2, _p, _m = _mac0_block(octets, bun, 7, 10)
        return assemble([sb1, sb2]), 'bad', 2, pay
    if variant == 'second_bad_ctx':
        sb2, p2, m2 = _mac0_block(octets, bun, 7, 10)
        sb2['data'] = cose.write_asb([7], 99, SRC_NODE, p2, [[(cose.TAG_MAC0, m2)]])
        return assemble([sb, sb2]), 'bad', 2, pay
    if variant in ('bcb_good', 'bcb_bad_ct', 'bcb_ctx99', 'bcb_garbled'):
        o2, plain = produce_independent('enc0', 'default', k, payload_len=[0, 1, 16, 40][k % 4])
        if variant == 'bcb_good':
            return o2, 'good', 1, plain
        b2 = bp7.read_bundle(o2)
        blocks2 = [dict(b) for b in b2['blocks']]
        if variant == 'bcb_bad_ct':
            for b in blocks2:
                if b['type'] == 1:
                    b['data'] = b['data'][:-1] + bytes([b['data'][-1] ^ 1])
        else:
            for b in blocks2:
                if b['type'] == 12:
                    asb = cose.read_asb(b['data'])
                    if variant == 'bcb_ctx99':
                        b['data'] = cose.write_asb(asb['targets'], 99, asb['source'], list(asb['params'].items()),
                                                   asb['results'])
                    else:
                        b['data'] = b'\x9f\x01'
        return bp7.write_bundle(b2['primary'], blocks2), 'bad', 1, plain
    if variant.startswith('bcb_over_bib'):
        # RFC 9172 section 3.9: a BCB that targets a block which a BIB targets also targets that BIB, so the
        # integrity block travels encrypted.  Here: BIB 9 over the payload, BCB 10 over [BIB 9, payload].
        tamper = {'bcb_over_bib_good': None, 'bcb_over_bib_bad_tag': 'tag', 'bcb_over_bib_other_key': None,
                  'bcb_over_bib_bad_ct': None}[variant]
        key = bytes(range(40, 72)) if variant == 'bcb_over_bib_other_key' else None
        sbi, _p, _m = _mac0_block(octets, bun, 1, 9, tamper=tamper, key=key)
        o1 = assemble([sbi])
        b1 = bp7.read_bundle(o1)
        blocks1 = [dict(b) for b in b1['blocks']]
        bcb = {'type': 12, 'num': 10, 'flags': 0, 'crc_type': 0, 'data': b''}
        asb = {'params': {}, 'source_raw': bp7.text_to_eid(SRC_NODE)}
        results = []
        for tnum in (9, 1):
            tgt = [b for b in b1['blocks'] if b['num'] == tnum][0]
            aad = cose.external_aad(o1, b1, bcb, asb, tgt)
            msg, ct = cose.enc0_message(KEYS['enc'], 1, KID['enc'], b'IV-obib-%04d' % (tnum + 10 * (k % 90)), aad, tgt['data'])
            results.append([(cose.TAG_ENC0, msg)])
            for b in blocks1:
                if b['num'] == tnum:
                    b['data'] = ct
                    if variant == 'bcb_over_bib_bad_ct' and tnum == 9:
                        b['data'] = ct[:-1] + bytes([ct[-1] ^ 1])
        bcb['data'] = cose.write_asb([9, 1], cose.CTX_COSE, SRC_NODE, [], results)
        blocks1.insert(len(blocks1) - 1, bcb)
        return (bp7.write_bundle(b1['primary'], blocks1), 'good' if variant == 'bcb_over_bib_good' else 'bad', 2, pay)
    raise ValueError(variant)


C12_VARIANTS = ['none', 'good', 'bad_tag', 'ctx99', 'missing_target', 'dup_param', 'dup_result', 'two_results_kinds',
                'garbled_cose', 'cose_wrong_shape', 'garbled_asb', 'truncated_asb', 'two_good', 'second_bad',
                'first_bad', 'second_bad_ctx', 'bcb_good', 'bcb_bad_ct', 'bcb_ctx99', 'bcb_garbled',
                'bcb_over_bib_good', 'bcb_over_bib_bad_tag', 'bcb_over_bib_other_key', 'bcb_over_bib_bad_ct']


def fragment_octets(octets, cuts):
    ''' Fragments of a bundle as a forwarding node makes them (independent writer): the first carries every
    extension block, later ones only those flagged "replicate"; cuts = payload offsets where a new fragment starts. '''
    bun = bp7.read_bundle(octets)
    pay = [b for b in bun['blocks'] if b['type'] == 1][0]
    data = pay['data']
    bounds = [0] + list(cuts) + [len(data)]
    out = []
    for (lo, hi) in zip(bounds[:-1], bounds[1:]):
        prim = dict(bun['primary'])
        prim['flags'] = prim['flags'] | 0x1
        prim['frag_off'], prim['total'] = lo, len(data)
        blocks = [dict(b) for b in bun['blocks'] if b['type'] != 1 and (lo == 0 or b['flags'] & 0x1)]
        blocks.append(dict(pay, data=data[lo:hi]))
        out.append(bp7.write_bundle(prim, blocks))
    return out


def receive_fragments(frags, order, keymode, accept, label, nsec, plain):
    world = BpWorld(node_id='dtn://node/', rx_routes=[(PROBE, 'deliver')], tx_routes=[('dtn://rpt/', 'dtn://rpt/', None)],
                    accept=accept, setup=dest_setup(keymode))
    for i in order:
        # what the generator knows about the security of the bundle holds for every fragment of it
        world.recv(frags[i], sec=label, plain='', nsec=nsec if i == 0 else 0)
        world.run_idle()
    return world.finish({})


# creation time after the end of the certificates' validity (2035-01-01)
TS_EXPIRED = int((datetime.datetime(2036, 6, 1, tzinfo=datetime.timezone.utc)
                  - datetime.datetime(2000, 1, 1, tzinfo=datetime.timezone.utc)).total_seconds() * 1000)


def produce_signed(k, secsrc=SRC_NODE, ts0=None, payload_len=5):
    ''' A bundle signed (COSE_Sign1, certificate chain in the header) by a real source agent whose node ID - the
    security source named in the integrity block - is ``secsrc``; the certificate always names SRC_NODE. '''
    octets, pay = base_bundle(k, payload_len, ts0=ts0)
    del _CAPTURE[:]
    world = BpWorld(node_id=secsrc, tx_routes=[('dtn://', 'next', None)], setup=source_setup('sign1'))
    world.send(octets)
    world.run_idle()
    outs = [o for o in _CAPTURE]
    if len(outs) != 1:
        raise RuntimeError('source agent produced %d bundles' % len(outs))
    return outs[0], pay


def receive_history(items, accept):
    ''' One long-running receiver gets a sequence of bundles: what it learnt from one (keys, certificates) must not
    make it accept another.  items: [(octets, label, nsec, payload)] '''
    world = BpWorld(node_id='dtn://node/', rx_routes=[(PROBE, 'deliver')], tx_routes=[('dtn://rpt/', 'dtn://rpt/', None)],
                    accept=accept, setup=dest_setup('right'))
    for (octets, label, nsec, pay) in items:
        world.recv(octets, sec=label, plain=dig(pay) if label == 'good' else '', nsec=nsec)
        world.run_idle()
    return world.finish({})


def cert_history_executions(tier, seed):
    ''' Certificate-based integrity over a receiver's lifetime: genuine bundles of the certificate's holder, bundles
    signed with the same key and chain but naming another security source, and bundles created after the
    certificate expired - in every order of up to three. '''
    kinds = {
        'genuine': lambda k: produce_signed(k) + ('good',),
        'other_secsrc': lambda k: produce_signed(k, secsrc='dtn://victim/') + ('bad',),
        'expired': lambda k: produce_signed(k, ts0=TS_EXPIRED) + ('bad',),
    }
    traces, metas = [], []
    seqs = [s for n in (1, 2, 3) for s in itertools.product(sorted(kinds), repeat=n)]
    if tier == 'quick':
        rnd = random.Random(seed * 17 + 2)
        seqs = [s for s in seqs if len(s) < 3] + rnd.sample([s for s in seqs if len(s) == 3], 8)
    k = 7000 + (seed % 50) * 40
    for (i, seq) in enumerate(seqs):
        items = []
        for name in seq:
            k += 1
            (octets, pay, label) = kinds[name](k)
            items.append((octets, label, 1, pay))
        traces.append(receive_history(items, accept=bool(i % 2)))
        metas.append({'variant': 'certificate-history', 'sequence': list(seq), 'accept': bool(i % 2)})
    return traces, metas


def c12_executions(tier, seed):
    rnd = random.Random(seed * 41 + 12)
    traces, metas = [], []
    k = 0
    reps = 1 if tier == 'quick' else 6
    for _ in range(reps):
        for variant in C12_VARIANTS:
            for keymode in ('right', 'wrong', 'absent'):
                for accept in (False, True):
                    k += 1
                    octets, label, nsec, pay = c12_bundle(variant, k)
                    if keymode != 'right' and label == 'good':
                        label = 'bad'
                    is_bcb = variant.startswith('bcb')
                    plain = dig(pay) if (label == 'good' and (accept or not is_bcb)) or label == 'none' else ''
                    trace, _res = receive(octets, keymode, accept, sec=label, plain=plain, nsec=nsec)
                    traces.append(trace)
                    metas.append({'variant': variant, 'key': keymode, 'accept': accept, 'label': label})
    # the same bundles arriving as fragments (the integrity block travels in the first fragment only), in order and
    # with a later fragment first: the bundle re-assembled here is verified like any other before it is delivered
    for rep in range(reps):
        for variant in ('good', 'bad_tag', 'ctx99', 'two_good', 'second_bad', 'none'):
            for keymode in ('right', 'wrong'):
                for accept in (False, True):
                    k += 1
                    octets, label, nsec, pay = c12_bundle(variant, 4 * k + 3)      # (a 40-octet payload)
                    if keymode != 'right' and label == 'good':
                        label = 'bad'
                    ncut = 1 + k % 2
                    cuts = sorted(rnd.sample(range(1, len(pay)), ncut))
                    frags = fragment_octets(octets, cuts)
                    for order in (list(range(len(frags))), list(reversed(range(len(frags))))):
                        traces.append(receive_fragments(frags, order, keymode, accept, label, nsec, dig(pay)))
                        metas.append({'variant': variant, 'key': keymode, 'accept': accept, 'label': label,
                                      'fragments': len(frags), 'order': order})
    (htr, hme) = cert_history_executions(tier, seed)
    traces += htr
    metas += hme
    # cases of the coverage sweep whose verdict the independent implementation knows
    events, ctraces, cmetas = cover_cases(tier, seed, ('mac0', 'enc0'))
    for (ev, tr, me) in zip(events[:-1], ctraces, cmetas):
        if ev['indep'] not in ('ok', 'fail'):
            continue
        label = 'good' if ev['indep'] == 'ok' else 'bad'
        for rec in tr:
            if rec['a'] == 'Recv':
                rec['sec'] = label
                rec['plain'] = ''
        traces.append(tr)
        metas.append(dict(me, label=label, variant='coverage-sweep'))
    return traces, metas

''' C20 scenarios: BTP-U segmentation / reassembly and message-set codec agreement. '''
import itertools
import random
import signal
import sys
import struct

import boot  # noqa: F401
from harness.drivers import btpu_world as bw
from harness.drivers.btpu_world import BtpuWorld, dig
from harness.drivers.udpcl_cases import Hang, _alarm

import btpu.messages as bmsg


def data_of(n, salt):
    return bytes((i * 5 + salt * 3 + 1) % 253 for i in range(n))


def run_case(case):
    signal.signal(signal.SIGVTALRM, _alarm)
    sys.unraisablehook = lambda *_a: None     # the watchdog may fire inside a context that swallows exceptions
    signal.setitimer(signal.ITIMER_VIRTUAL, 3.0, 1.0)
    world = BtpuWorld(case['mtu'], late_pop=bool(case.get('late_pop')))
    once = True
    try:
        for (k, n) in enumerate(case['lengths']):
            world.request(data_of(n, k + case['salt']))
        world.pump_sender()
        order = case['order'](world)
        seen = set()
        for idx in order:
            if idx in seen:
                once = False
            seen.add(idx)
            world.deliver(idx)
        for (src, xfer, data, cuts, perm, hints) in case.get('foreign', []):
            key = 'f' + str(xfer)
            world.requests[key] = data
            world.by_dig[dig(data)] = key
            world.emit('Request', x=key, total=len(data), dig=dig(data))
            frames = []
            off = 0
            for (i, n) in enumerate(cuts):
                mtype = bw.T_END if i == len(cuts) - 1 else bw.T_SEG
                frames.append(bw.write_transfer(mtype, xfer, i, data[off:off + n], hints))
                off += n
            descr = [world.describe(f, len(f), xprefix='f') for f in frames]
            for (f, ps) in zip(frames, descr):
                try:
                    reenc = bytes(bmsg.MessageSet(f)) == f
                except Exception:
                    reenc = False
                for p in ps:
                    world.emit('Piece', x=p['x'], kind=p['kind'], size=0, off=p['off'], len=p['len'],
                               total=p['total'], dataok=p['dataok'], lensok=p['lensok'], idx=p['idx'], last=p['last'],
                               reenc=reenc)
            for i in perm:
                for p in descr[i]:
                    world.emit('Arrive', x=p['x'], off=p['off'], len=p['len'], total=p['total'], fresh=True)
                world.inject(frames[i], src)
        for (parts, _label) in case.get('composed', []):
            frame = b''
            for (kind, val) in parts:
                if kind == 'bundle':
                    key = 'c' + dig(val)
                    world.requests[key] = val
                    world.by_dig[dig(val)] = key
                    world.emit('Request', x=key, total=len(val), dig=dig(val))
                    world.emit('Piece', x=key, kind='whole', size=0, off=0, len=len(val), total=len(val), dataok=True,
                               lensok=True, idx=-1, last=False, reenc=True)
                    world.emit('Arrive', x=key, off=0, len=len(val), total=len(val), fresh=True)
                    frame += bw.write_message(bw.T_BUNDLE, val, hints=val and [(1, b'h')] if len(val) % 2 else [])
                elif kind == 'defpad':
                    frame += bw.write_message(bw.T_PAD, b'\x00' * val)
                elif kind == 'pad':
                    frame += b'\x00' * val
            world.inject(frame)
    except Hang:
        world.emit('Hang', where='sender')
    finally:
        signal.setitimer(signal.ITIMER_VIRTUAL, 0)
    return world.finish(once and not case.get('drop'))


def executions(tier, seed):
    rnd = random.Random(seed * 47 + 20)
    out = []
    mtus = [19, 20, 30, 60, 100, 1500] if tier == 'quick' else [19, 20, 21, 25, 30, 40, 60, 100, 256, 300, 1500, 9000]
    for mtu in mtus:
        for n in sorted({0, 1, mtu - 19, mtu - 18, mtu - 17, mtu - 5, mtu - 4, mtu - 3, mtu, mtu + 1, 2 * mtu, 5 * mtu}):
            if n < 0 or n > 40 * max(1, mtu - 18):
                continue
            out.append({'lengths': [n], 'mtu': mtu, 'salt': len(out), 'order': lambda w: list(range(len(w.pending))),
                        'kind': 'sizes'})
    out.append({'lengths': [70000], 'mtu': 9000, 'salt': 1, 'order': lambda w: list(range(len(w.pending))), 'kind': 'sizes'})
    out.append({'lengths': [300], 'mtu': None, 'salt': 2, 'order': lambda w: list(range(len(w.pending))), 'kind': 'sizes'})
    # every permutation of the segments of one transfer (<= 4 segments)
    for (n, mtu) in ((60, 48), (90, 48), (100, 46)):
        w0 = BtpuWorld(mtu)
        w0.request(data_of(n, 5))
        w0.pump_sender()
        count = len(w0.pending)
        perms = list(itertools.permutations(range(count)))
        if tier == 'quick':
            perms = perms[:12]
        for perm in perms:
            out.append({'lengths': [n], 'mtu': mtu, 'salt': 5, 'order': (lambda w, perm=perm: list(perm)), 'kind': 'perm'})
    for k in range(40 if tier == 'quick' else 800):
        style = rnd.choice(['perm', 'dups', 'drop', 'perm'])

        def order(w, style=style, rr=random.Random(k)):
            idx = list(range(len(w.pending)))
            rr.shuffle(idx)
            if style == 'dups':
                idx += [rr.choice(idx) for _ in range(rr.randint(1, 3))]
                rr.shuffle(idx)
            elif style == 'drop' and len(idx) > 1:
                idx = idx[:-1]
            return idx
        case = {'lengths': [rnd.choice([50, 77, 130]), rnd.choice([40, 99])][:1 + k % 2], 'mtu': rnd.choice([40, 52, 70]),
                'salt': 100 + k, 'order': order, 'kind': style, 'drop': style == 'drop'}
        if k % 2 == 0:
            data = data_of(rnd.choice([9, 30]), 300 + k)
            ncut = rnd.choice([1, 1, 2, 3])
            cuts = [len(data)] if ncut == 1 else ([4, len(data) - 4] if ncut == 2 else [3, 2, len(data) - 5])
            perm = list(range(len(cuts)))
            rnd.shuffle(perm)
            hints = [[], [(0, struct.pack('!I', len(data)))], [(0, struct.pack('!I', len(data))), (5, b'xy')],
                     [(3, b''), (0, struct.pack('!I', len(data))), (9, b'abc')]][k % 4]
            case['foreign'] = [('02:00:00:00:00:03', 0, data, cuts, perm, hints)]
        out.append(case)
    # several bundles, some fitting one frame and some segmented, left in the receive queue until the end
    for k in range(16 if tier == 'quick' else 200):
        mtu = rnd.choice([40, 60, 100])
        lengths = [rnd.choice([5, 12, mtu - 19, mtu - 5, mtu + 30, 3 * mtu, 200]) for _ in range(rnd.randint(2, 5))]
        out.append({'lengths': lengths, 'mtu': mtu, 'salt': 400 + k, 'order': lambda w: list(range(len(w.pending))),
                    'kind': 'late-pop', 'late_pop': True})
    for k in range(8 if tier == 'quick' else 80):
        b1, b2 = data_of(rnd.choice([5, 30]), 700 + k), data_of(rnd.choice([9, 41]), 800 + k)
        comps = [([('bundle', b1), ('bundle', b2)], 'two bundle messages'),
                 ([('bundle', b1), ('pad', rnd.choice([1, 5]))], 'bundle + trailing padding'),
                 ([('defpad', 3), ('bundle', b2)], 'definite padding message + bundle'),
                 ([('bundle', b1), ('defpad', 0), ('bundle', b2), ('pad', 2)], 'mixed')]
        out.append({'lengths': [], 'mtu': None, 'salt': k, 'order': lambda w: [], 'composed': [comps[k % 4]],
                    'kind': 'composed'})
    for mtu in ((10, 18) if tier == 'quick' else (1, 4, 10, 17, 18)):
        out.append({'lengths': [100], 'mtu': mtu, 'salt': 3, 'order': lambda w: list(range(len(w.pending))),
                    'kind': 'impossible'})
    traces, metas = [], []
    for c in out:
        traces.append(run_case(c))
        metas.append({'kind': c['kind'], 'lengths': c['lengths'], 'mtu': c['mtu'],
                      'foreign': [(f[3], f[4], len(f[5])) for f in c.get('foreign', [])],
                      'composed': [x[1] for x in c.get('composed', [])]})
    return traces, metas


# ---------------------------------------------------------------------------- codec agreement
def impl_fields(msg):
    ''' Fields of one decoded btpu.messages.MessageHead as a uniform record. '''
    hints = [[int(h.hint_type), bytes(h.payload).hex()] for h in msg.hints]
    load = msg.payload
    rec = {'type': int(msg.msg_type), 'hints': hints, 'xfer': -1, 'idx': -1, 'data': ''}
    if isinstance(load, (bmsg.TransferSeg, bmsg.TransferEnd)):
        rec['xfer'], rec['idx'] = int(load.xfer_num), int(load.seg_idx)
        rec['data'] = dig(bytes(load.payload))
    elif isinstance(load, bmsg.TransferCancel):
        rec['xfer'] = int(load.xfer_num)
    else:
        rec['data'] = dig(bytes(load))
    return rec


def indep_fields(m):
    rec = {'type': m['type'], 'hints': [[t, v.hex()] for (t, v) in m['hints']], 'xfer': -1, 'idx': -1, 'data': ''}
    if m['type'] in (bw.T_SEG, bw.T_END):
        (rec['xfer'], rec['idx']) = struct.unpack('!II', m['payload'][:8])
        rec['data'] = dig(m['payload'][8:])
    elif m['type'] == bw.T_CANCEL:
        (rec['xfer'],) = struct.unpack('!I', m['payload'][:4])
    else:
        rec['data'] = dig(m['payload'])
    return rec


def codec_trace(tier):
    from scapy.packet import Raw
    evs = []
    hintsets = [[], [(0, b'\x00\x00\x01\x00')], [(0, b'\x00\x00\x00\x07'), (2, b'')], [(1, b'a'), (2, b'bc'), (127, b'\xff' * 5)]]
    datas = [b'', b'\x01', bytes(range(40)), bytes(300), bytes((i * 3) % 256 for i in range(70000))]
    kinds = {bw.T_PAD: 'PAD', bw.T_BUNDLE: 'BUNDLE', bw.T_SEG: 'SEG', bw.T_END: 'END', bw.T_CANCEL: 'CANCEL'}
    for hints in hintsets:
        for data in datas:
            for mtype in (bw.T_PAD, bw.T_BUNDLE, bw.T_SEG, bw.T_END, bw.T_CANCEL):
                if mtype == bw.T_PAD and data and any(data):
                    data_m = bytes(len(data))
                else:
                    data_m = data
                if mtype in (bw.T_SEG, bw.T_END):
                    frame = bw.write_transfer(mtype, 2 ** 32 - 1 if len(data) % 2 else 7, len(data) % 5, data_m, hints)
                elif mtype == bw.T_CANCEL:
                    frame = bw.write_message(mtype, struct.pack('!I', 9), hints)
                else:
                    frame = bw.write_message(mtype, data_m, hints)
                if len(frame) > 2 ** 20:
                    continue
                want = indep_fields(bw.read_message_set(frame)[0])
                # independent encoder -> implementation decoder -> re-encode
                decoded = True
                same = False
                try:
                    ms = bmsg.MessageSet(frame)
                    got = impl_fields(ms.msgs[0]) if len(ms.msgs) == 1 else {'type': -1, 'hints': [], 'xfer': -1,
                                                                             'idx': -1, 'data': 'count'}
                    same = bytes(ms) == frame
                except Exception as err:
                    decoded = False
                    got = {'type': -2, 'hints': [], 'xfer': -1, 'idx': -1, 'data': type(err).__name__}
                evs.append({'a': 'ImplDec', 'prop': 'C20', 'kind': kinds[mtype], 'impl': got, 'indep': want,
                            'decoded': decoded, 'kf': ''})
                evs.append({'a': 'ReEnc', 'prop': 'C20', 'kind': kinds[mtype], 'same': same, 'kf': ''})
                # implementation encoder -> independent decoder
                try:
                    head = bmsg.MessageHead(hints=[bmsg.HintHead(hint_type=t) / Raw(v) for (t, v) in hints])
                    if mtype in (bw.T_SEG, bw.T_END):
                        cls = bmsg.TransferSeg if mtype == bw.T_SEG else bmsg.TransferEnd
                        pkt = head / cls(xfer_num=want['xfer'], seg_idx=want['idx']) / Raw(data_m)
                    elif mtype == bw.T_CANCEL:
                        pkt = head / bmsg.TransferCancel(xfer_num=9)
                    elif mtype == bw.T_BUNDLE:
                        pkt = head / bmsg.BundlePdu(data_m)
                    else:
                        pkt = head / bmsg.DefinitePadding(data_m)
                    octets = bytes(pkt)
                    msgs = bw.read_message_set(octets)
                    got2 = indep_fields(msgs[0])
                    lens_ok = len(msgs) == 1 and msgs[0]['declared'] == msgs[0]['actual'] and \
                        4 + msgs[0]['declared'] == len(octets)
                except Exception as err:
                    got2 = {'type': -2, 'hints': [], 'xfer': -1, 'idx': -1, 'data': type(err).__name__}
                    lens_ok = False
                evs.append({'a': 'ImplEnc', 'prop': 'C20', 'kind': kinds[mtype], 'impl': want, 'indep': got2,
                            'lens_ok': lens_ok, 'kf': ''})
    evs.append({'a': 'End', 'prop': 'C20', 'kinds': sorted(kinds.values())})
    return evs

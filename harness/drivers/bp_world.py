''' One real bp.agent.Agent under the deterministic GLib shim with a fake convergence layer.

Observation points (all outside /repo):
* ``Recv``    - octets handed to the agent, described by the *independent* RFC 9171 reader;
* ``Consume`` - an application consumed a payload (probe application registered as an ordinary
                order-30 chain step, plus wrappers on the consuming calls of the built-in apps);
* ``ClOut``   - octets handed to the convergence layer, described by the independent reader
                (status reports are read by the independent administrative-record reader);
* ``Boundary``- end of a callback (recv call or deferred idle callback), with the sizes of the
                agent's queues; ``Escape`` if an exception left the callback.
'''
import datetime
import hashlib
import re

import boot  # noqa: F401
boot.import_oscrypto()
from gi.repository import GLib  # noqa: E402
import dbus  # noqa: E402
import dbus.bus  # noqa: E402

from harness.indep import bp7  # noqa: E402

import bp.agent  # noqa: E402
import bp.util  # noqa: E402
import bp.config  # noqa: E402
from bp.util import BundleContainer, ChainStep  # noqa: E402
from bp.encoding import Bundle  # noqa: E402

BIG = 2 ** 31 - 1


def clampi(val):
    if val is None:
        return -1
    return int(val) if -BIG <= val <= BIG else (BIG if val > 0 else -BIG)


def dig(data):
    return hashlib.sha256(bytes(data)).hexdigest()[:12]


class _VirtualDatetime(datetime.datetime):
    _base = datetime.datetime(2025, 6, 1, tzinfo=datetime.timezone.utc)

    @classmethod
    def now(cls, tz=None):
        val = cls._base + datetime.timedelta(milliseconds=GLib.SCHED.now_ms)
        if tz is None:
            return val.replace(tzinfo=None)
        return val.astimezone(tz)


class _DatetimeModule(object):
    datetime = _VirtualDatetime
    timezone = _VirtualDatetime._base.tzinfo.__class__
    timedelta = _VirtualDatetime.resolution.__class__


DTN_EPOCH = datetime.datetime(2000, 1, 1, tzinfo=datetime.timezone.utc)


def dtn_now_ms():
    return int((_VirtualDatetime.now(datetime.timezone.utc) - DTN_EPOCH) / datetime.timedelta(milliseconds=1))


def abstract_bundle(octets):
    ''' What the independent reader sees, as a uniform TLC-friendly record. '''
    rec = {'ok': False, 'wf': False, 'crcok': False, 'id': '', 'base': '', 'src': '', 'dest': '', 'rpt': '',
           'flags': [], 'isfrag': False, 'off': -1, 'total': -1, 'ver': -1, 'crcp': -1, 'prim': '', 'paylen': -1,
           'pay': '', 'blocks': [], 'size': clampi(len(octets)), 'problems': [], 'report': [], 'tsnz': False}
    try:
        bun = bp7.read_bundle(octets)
    except bp7.Malformed as err:
        rec['problems'] = [str(err)]
        return rec, None
    p = bun['primary']
    rec['ok'] = True
    rec['problems'] = list(bun['problems'])
    rec['wf'] = not bun['problems']
    rec['crcok'] = bool(p['crc_ok'] and all(b['crc_ok'] for b in bun['blocks']))
    rec['src'], rec['dest'], rec['rpt'] = p['src'], p['dest'], p['rpt']
    rec['flags'] = bp7.flags_of(bun)
    rec['isfrag'] = bool(p['flags'] & 1)
    rec['off'] = clampi(p['frag_off'])
    rec['total'] = clampi(p['total'])
    rec['ver'] = clampi(p['version'])
    rec['crcp'] = p['crc_type']
    rec['tsnz'] = p['ts_time'] != 0
    rec['base'] = '%s|%d|%d' % (p['src'], p['ts_time'], p['ts_seq'])
    # everything of the primary block that forwarding must preserve
    rec['prim'] = '%d|%d|%s|%s|%s|%d|%d|%d|%s|%s' % (p['version'], p['flags'], p['dest'], p['src'], p['rpt'],
                                                     p['ts_time'], p['ts_seq'], p['lifetime'], p['frag_off'],
                                                     p['total'])
    pay = bp7.payload_of(bun)
    if pay is not None:
        rec['paylen'] = clampi(len(pay))
        rec['pay'] = dig(pay)
    # a fragment is identified by its offset and its own payload length (two paths may cut at the same offset)
    rec['id'] = rec['base'] + ('|%s|%s' % (p['frag_off'], len(pay) if pay is not None else -1) if rec['isfrag'] else '')
    for b in bun['blocks']:
        kind, val = bp7.read_block_data(b['type'], b['data']) if b['type'] != 1 else ('payload', None)
        ent = {'type': clampi(b['type']), 'num': clampi(b['num']), 'flags': clampi(b['flags']), 'crc': b['crc_type'],
               'crcok': bool(b['crc_ok']), 'crcfield': b['nitems'] == 6, 'kind': kind, 'eid': '', 'limit': -1,
               'count': -1, 'age': -1, 'dig': dig(b['data']), 'len': clampi(len(b['data']))}
        if kind == 'prev':
            ent['eid'] = val
        elif kind == 'hop':
            ent['limit'], ent['count'] = clampi(val[0]), clampi(val[1])
        elif kind == 'age':
            ent['age'] = clampi(val)
        rec['blocks'].append(ent)
    if 'ADMIN' in rec['flags'] and pay is not None:
        try:
            adm = bp7.read_admin_record(pay)
        except bp7.Malformed as err:
            rec['report'] = [{'bad': str(err)}]
        else:
            if adm['type'] == 1:
                rec['report'] = [{
                    'bad': '',
                    'subj': '%s|%d|%d' % (adm['subj_src'], adm['subj_ts'][0], adm['subj_ts'][1]),
                    'reason': adm['reason'],
                    'asserted': sorted(k for (k, v) in adm['asserted'].items() if v[0]),
                    'timed': sorted(k for (k, v) in adm['asserted'].items() if v[0] and v[1] is not None),
                    'hasfrag': adm['frag_off'] is not None,
                }]
    return rec, bun


class FakeCla(object):
    ''' Convergence layer adaptor stand-in: records what it is asked to send. '''

    def __init__(self, world):
        self.world = world
        self.serv_name = 'fake'

    def send_bundle_func(self, tx_params):
        def sender(data):
            self.world.on_clout(bytes(data), tx_params)
        return sender

    def bind(self, _conn):
        pass

    def unbind(self):
        pass


CL_SERVICES = {
    # cltype: (bus name, object path, interface, tx parameters the real daemon would want)
    'udpcl': ('org.ietf.dtn.node.udpcl', '/org/ietf/dtn/udpcl/Agent', 'org.ietf.dtn.udpcl.Agent',
              {'address': '10.0.0.9', 'port': 4556}),
    'btpu': ('org.ietf.dtn.node.btpu', '/org/ietf/dtn/btpu/Agent', 'org.ietf.dtn.btpu.Agent',
             {'address': '02:00:00:00:00:09', 'local_if': 'veth0'}),
}


def make_cl_service(world, cltype, conn):
    ''' Stand-in of a convergence layer daemon on the bus, reached only through the real adaptor classes of
    bp.cla (UdpclAdaptor, BtpuAdaptor): what arrives in send_bundle_data is what left the node. '''
    (_name, path, iface, _params) = CL_SERVICES[cltype]

    class ClService(dbus.service.Object):

        def __init__(self):
            dbus.service.Object.__init__(self, conn=conn, object_path=path)
            self.rxq = {}

        @dbus.service.method(iface, in_signature='aya{sv}', out_signature='s')
        def send_bundle_data(self, data, params):
            world.on_clout(bytes(data), dict(params))
            return 'x'

        @dbus.service.method(iface, in_signature='s', out_signature='ay')
        def recv_bundle_pop_data(self, bid):
            return dbus.ByteArray(self.rxq.pop(str(bid)))

        @dbus.service.signal(iface, signature='sta{sv}')
        def recv_bundle_finished(self, bid, length, params):
            pass

    return ClService()


class BpWorld(object):

    PROBE_EID = 'dtn://node/probe'

    def __init__(self, node_id='dtn://node/', rx_routes=(), tx_routes=(), accept=False, safe_endpoint=None,
                 setup=None, adaptors=False, fresh=True, bus_key='bp-bus', ext_cl=None, probe_eid=None,
                 defer_attach=()):
        ''' rx_routes: [(prefix, action)], tx_routes: [(prefix, next_node, mtu[, cltype])] (prefix match).
        adaptors: transmit routes go through the real bp.cla adaptor of their cltype ('udpcl' / 'btpu') to a
        stand-in CL service on the bus, which may leave and re-join the bus (cl_down / cl_up). '''
        # fresh=False: this node joins a world somebody else has set up (composition with real CL agents);
        # ext_cl: {cltype: (bus name, tx parameters)} of real CL services on this node's bus
        if fresh:
            GLib.reset()
            dbus.bus.BusConnection.reset_all()
            dbus.RECORDER.clear()
            dbus.RECORDER.sink = lambda ev: None
        if probe_eid is not None:
            self.PROBE_EID = probe_eid
        self.ext_cl = dict(ext_cl or {})
        bp.agent.datetime = _DatetimeModule
        bp.util.datetime = _DatetimeModule
        self.node_id = node_id
        self.log = []
        self.rx_routes = list(rx_routes)
        self.originals = {}
        self.rx_age = {}        # base identity -> (Bundle Age as received or None, reception time) [creation time 0]
        self.safe_endpoint = safe_endpoint
        self.adaptors = bool(adaptors)
        self.tx_routes = [tuple(r[:3]) for r in tx_routes]
        self.tx_cl = [(r[3] if len(r) > 3 else 'udpcl') if (adaptors or self.ext_cl) else 'fake' for r in tx_routes]
        self.cl_up_now = {}
        self.cl_svc = {}
        cfg = bp.config.Config()
        cfg.node_id = node_id
        cfg.accept_after_verify = accept
        cfg._bus_conn = dbus.bus.BusConnection(bus_key)
        for (prefix, action) in rx_routes:
            cfg.rx_route_table.append(bp.config.RxRouteItem(eid_pattern=re.compile(re.escape(prefix)), action=action))
        for ((prefix, nxt, mtu), cltype) in zip(self.tx_routes, self.tx_cl):
            raw = {'next': nxt}
            if mtu is not None or not adaptors:
                raw['mtu'] = mtu
            if adaptors:
                raw.update(CL_SERVICES[cltype][3])
            elif cltype in self.ext_cl:
                raw = dict(self.ext_cl[cltype][1])
            cfg.tx_route_table.append(bp.config.TxRouteItem(eid_pattern=re.compile(re.escape(prefix)),
                                                            next_nodeid=nxt, cl_type=cltype, mtu=mtu,
                                                            raw_config=raw))
        if safe_endpoint:
            cfg.apps['safe'] = {'endpoint': safe_endpoint}
        self.config = cfg
        self.agent = bp.agent.Agent(cfg)
        self.agent._cl_agent['fake'] = FakeCla(self)
        if adaptors:
            for cltype in sorted(CL_SERVICES):
                self.cl_svc[cltype] = make_cl_service(self, cltype, cfg.bus_conn)
                cfg.bus_conn.request_name(CL_SERVICES[cltype][0])
                self.cl_up_now[cltype] = True
                # (defer_attach: the node learns about this CL daemon only later, see cl_attach_late)
                if cltype not in defer_attach:
                    self.agent.cl_attach(cltype, CL_SERVICES[cltype][0])
        for (cltype, (servname, _params)) in sorted(self.ext_cl.items()):
            self.cl_up_now[cltype] = True
            self.agent.cl_attach(cltype, servname)
            # what the adaptor hands to the agent is a reception like any other
            adaptor = self.agent.get_cla(cltype)
            inner = adaptor.recv_bundle_finish

            def finish(data, metadata, inner=inner):
                self.note_recv(bytes(data), note='from ' + cltype)
                try:
                    inner(data, metadata)
                except Exception as err:
                    self.emit('Escape', where='recv', exc=type(err).__name__, expected=False)
                self.boundary('recv')
            adaptor.recv_bundle_finish = finish
        self._install_probe()
        self._wrap_builtin_apps()
        self.cur_mtu = None
        if setup:
            setup(self)

    # ------------------------------------------------------------------ logging
    def emit(self, a, **kw):
        ev = {'a': a, 'seq': len(self.log)}
        ev.update(kw)
        self.log.append(ev)
        return ev

    # ------------------------------------------------------------------ applications
    def _install_probe(self):
        world = self

        def probe(ctr):
            if 'deliver' not in ctr.actions:
                return False
            pri = ctr.bundle.primary
            if pri.destination != world.PROBE_EID:
                return False
            if pri.bundle_flags & 1:
                return False
            world._consume('probe', ctr)
            return True

        self.agent._rx_chain.append(ChainStep(order=30, name='Verification probe application', action=probe))
        self.agent._rx_chain.sort()

    def _consume(self, app, ctr):
        try:
            data = bytes(ctr.block_num(1).getfieldval('btsd'))
        except Exception:
            data = b''
        pri = ctr.bundle.primary
        ts = pri.create_ts
        base = '%s|%d|%d' % (pri.source, ts.getfieldval('dtntime'), ts.getfieldval('seqno'))
        blocks = []
        for blk in ctr.bundle.blocks:
            blocks.append([clampi(blk.getfieldval('type_code')), clampi(blk.getfieldval('block_num') or 0)])
        self.emit('Consume', app=app, base=base, dest=str(pri.destination), paylen=clampi(len(data)), pay=dig(data),
                  isfrag=bool(pri.bundle_flags & 1), btypes=sorted(b[0] for b in blocks),
                  sec_left=sum(1 for b in blocks if b[0] in (11, 12)))

    def _wrap_builtin_apps(self):
        world = self
        adm = self.agent._app.get('admin')
        if adm is not None:
            for key in list(adm._rec_type_map.keys()):
                orig = adm._rec_type_map[key]

                def handler(ctr, msg, _orig=orig):
                    world._consume('admin', ctr)
                    return _orig(ctr, msg)
                adm._rec_type_map[key] = handler
        safe = self.agent._app.get('safe')
        if safe is not None:
            ent = safe._safe
            orig_pdu = ent.recv_pdu
            orig_rb = safe._recv_bundle

            def wrapped_rb(ctr):
                world._cur_ctr = ctr
                try:
                    return orig_rb(ctr)
                finally:
                    world._cur_ctr = None

            def recv_pdu(adu, peer_eid):
                if getattr(world, '_cur_ctr', None) is not None:
                    world._consume('safe', world._cur_ctr)
                return orig_pdu(adu, peer_eid)
            ent.recv_pdu = recv_pdu
            for step in self.agent._rx_chain:
                if step.name == 'SAFE handling':
                    step.action = wrapped_rb
        sand = self.agent._app.get('sand')
        if sand is not None:
            orig_group = sand._recv_group

            def recv_group(ctr):
                world._consume('sand', ctr)
                return orig_group(ctr)
            sand._recv_group = recv_group

    # ------------------------------------------------------------------ CLA side
    def route_info(self, dest):
        ''' First-match evaluation inputs, computed by the harness with plain prefix matching. '''
        rx = [[bool(dest.startswith(prefix)), action] for (prefix, action) in self.rx_routes]
        tx = [[bool(dest.startswith(prefix)),
               -2 if not self.cl_up_now.get(cltype, True) else (clampi(mtu) if mtu is not None else -1)]
              for ((prefix, _nxt, mtu), cltype) in zip(self.tx_routes, self.tx_cl)]
        return rx, tx

    def routable(self, eid):
        ''' The first transmit route matching eid exists and its CL service is on the bus. '''
        for ((prefix, _nxt, _mtu), cltype) in zip(self.tx_routes, self.tx_cl):
            if eid.startswith(prefix):
                return self.cl_up_now.get(cltype, True)
        return False

    def cl_attach_late(self, cltype):
        ''' The node is told about a CL daemon after it has started handling bundles (asynchronous start-up). '''
        self.agent.cl_attach(cltype, CL_SERVICES[cltype][0])
        self.emit('ClState', cl=cltype, up=True)

    def cl_down(self, cltype):
        ''' The CL daemon leaves the bus (NameOwnerChanged with an empty new owner). '''
        conn = self.config.bus_conn
        name = CL_SERVICES[cltype][0]
        self.cl_svc[cltype].remove_from_connection()
        conn.names.discard(name)
        self.cl_up_now[cltype] = False
        for (sig, handler) in list(conn.daemon_subs):
            if sig == 'NameOwnerChanged':
                handler(name, ':1.77', '')
        self.emit('ClState', cl=cltype, up=False)

    def cl_up(self, cltype):
        conn = self.config.bus_conn
        self.cl_svc[cltype].add_to_connection(conn, CL_SERVICES[cltype][1])
        self.cl_up_now[cltype] = True
        conn.request_name(CL_SERVICES[cltype][0])
        self.emit('ClState', cl=cltype, up=True)

    def on_clout(self, data, tx_params):
        rec, bun = abstract_bundle(data)
        mtu = tx_params.get('mtu') if isinstance(tx_params, dict) else None
        agedelta = 0
        fragok = True
        if bun is not None:
            p = bun['primary']
            for b in bun['blocks']:
                kind, val = bp7.read_block_data(b['type'], b['data']) if b['type'] != 1 else ('payload', None)
                if kind == 'age' and p['ts_time'] != 0:
                    agedelta = clampi(val - (dtn_now_ms() - p['ts_time']))
                elif kind == 'age':
                    # no creation time: the only basis is the age it arrived with plus the time spent here
                    (rx_age, rx_at) = self.rx_age.get(rec['base'], (None, dtn_now_ms()))
                    agedelta = clampi(val - ((rx_age or 0) + dtn_now_ms() - rx_at))
            # payload slice of a fragment against the original payload the scenario knows
            base = rec['base']
            orig = self.originals.get(base)
            if orig is not None and rec['isfrag']:
                pay = bp7.payload_of(bun) or b''
                fragok = (pay == orig[p['frag_off']:p['frag_off'] + len(pay)])
        fx = -1
        if bun is not None and rec['isfrag'] and bun['primary']['frag_off'] is not None:
            # fixed part of the envelope: the same fragment re-written independently with offset, total
            # and payload length all zero (three one-octet heads)
            prim = dict(bun['primary'])
            prim['frag_off'] = 0
            prim['total'] = 0
            blocks = [dict(b, data=(b'' if b['type'] == 1 else b['data'])) for b in bun['blocks']]
            fx = len(bp7.write_bundle(prim, blocks)) - 3
        self.emit('ClOut', b=rec, mtu=clampi(mtu) if mtu is not None else -1, agedelta=agedelta, fragok=fragok, fx=fx,
                  next=str(tx_params.get('next', '')) if isinstance(tx_params, dict) else '')

    def recv(self, octets, note='', sec='none', plain='', nsec=0, expect_decode_error=False, via=None,
             corrupt=False, encbib=False):
        ''' The CLA hands a received bundle to the agent (as _cl_recv_bundle_finish does).
        sec/plain/nsec: what the generator of the bundle knows about its security blocks. '''
        rec = self.note_recv(octets, note=note, sec=sec, plain=plain, nsec=nsec, corrupt=corrupt, encbib=encbib)
        try:
            if via is not None:
                # through the real adaptor: the CL service announces the bundle, the adaptor pops and decodes it
                svc = self.cl_svc[via]
                bid = 'rx%d' % len(self.log)
                svc.rxq[bid] = bytes(octets)
                svc.recv_bundle_finished(bid, len(octets), dbus.Dictionary({}, signature='sv'))
            else:
                ctr = BundleContainer(Bundle(octets))
                self.agent.recv_bundle(ctr)
        except Exception as err:
            # the CLA adaptor decodes before calling the agent: an undecodable input may legitimately raise there
            self.emit('Escape', where='recv', exc=type(err).__name__,
                      expected=bool(expect_decode_error or corrupt or not rec['ok']))
        self.boundary('recv')

    def note_recv(self, octets, note='', sec='none', plain='', nsec=0, corrupt=False, encbib=False):
        ''' Record that these octets are being handed to the agent as a received bundle. '''
        rec, bun = abstract_bundle(octets)
        rx, tx = self.route_info(rec['dest']) if rec['ok'] else ([], [])
        btypes = sorted(b['type'] for b in rec['blocks'])
        if bun is not None and rec['paylen'] >= 0 and rec['base'] not in self.originals and not rec['isfrag']:
            self.originals[rec['base']] = bp7.payload_of(bun)
        if rec['ok'] and rec['base'] not in self.rx_age:
            ages = [b['age'] for b in rec['blocks'] if b['kind'] == 'age']
            self.rx_age[rec['base']] = (ages[0] if ages else None, dtn_now_ms())
        self.emit('Recv', b=rec, corrupt=bool(corrupt), rx=rx, tx=tx,
                  own=bool(rec['ok'] and rec['src'] == self.node_id),
                  admin=bool(rec['ok'] and rec['dest'] == self.node_id),
                  appdest=bool(rec['ok'] and self.safe_endpoint is not None and rec['dest'] == self.safe_endpoint),
                  sec=sec, plain=plain, nsec=nsec, encbib=bool(encbib), idle0=len(GLib.SCHED.sources), btypes=btypes, note=note,
                  rptroute=bool(rec['ok'] and self.routable(rec['rpt'])))
        return rec

    def boundary(self, name):
        ag = self.agent
        self.emit('Boundary', n=name, seen=clampi(len(ag._seen_bundle_ident)), fwdq=len(ag._fwd_queue),
                  idle=len(GLib.SCHED.sources), t=clampi(GLib.SCHED.now_ms))

    def run_idle(self, max_steps=500):
        ''' Run deferred callbacks in FIFO order until none is left. '''
        steps = 0
        while steps < max_steps:
            srcs = [s for s in GLib.SCHED.runnable() if s.kind == 'idle']
            if not srcs:
                break
            src = srcs[0]
            (ran, exc) = GLib.SCHED.run(src)
            steps += 1
            if exc is not None:
                self.emit('Escape', where=src.name[0], exc=type(exc).__name__, expected=False)
            self.boundary(src.name[0])
        return steps

    def send_reusing(self, octets, expect_error=False):
        ''' A local application which keeps ONE container for everything it sends: the bundle in it is replaced
        before each request (BundleContainer.bundle is a public attribute; reload() is the agent's business). '''
        rec, bun = abstract_bundle(octets)
        if bun is not None:
            self.originals[rec['base']] = bp7.payload_of(bun)
        self.emit('Send', b=rec)
        try:
            if getattr(self, '_app_ctr', None) is None:
                self._app_ctr = BundleContainer(Bundle(octets))
            else:
                self._app_ctr.bundle = Bundle(octets)
                self._app_ctr.route = None
                self._app_ctr.sender = None
            self.agent.send_bundle(self._app_ctr)
        except Exception as err:
            self.emit('SendError', exc=type(err).__name__, expected=bool(expect_error))
        self.boundary('send')

    def send(self, octets, payload=None, expect_error=False, unfinished_crc=False, unnumbered=False):
        ''' A local application asks the agent to send the bundle encoded in ``octets``.
        unfinished_crc: as an application builds it - CRC types chosen, CRC values not computed yet. '''
        rec, bun = abstract_bundle(octets)
        if bun is not None:
            self.originals[rec['base']] = bp7.payload_of(bun)
        self.emit('Send', b=rec)
        try:
            ctr = BundleContainer(Bundle(octets))
            if unnumbered:
                # as an application may build it: block numbers left to the agent (fix_block_num)
                for blk in ctr.bundle.blocks:
                    blk.fields.pop('block_num', None)
                    blk._rx_items = None
            if unfinished_crc:
                for blk in [ctr.bundle.primary] + list(ctr.bundle.blocks):
                    blk.fields.pop('crc_value', None)
                    blk._rx_items = None
            self.agent.send_bundle(ctr)
        except Exception as err:
            self.emit('SendError', exc=type(err).__name__, expected=bool(expect_error))
        self.boundary('send')

    def tick(self, ms):
        GLib.SCHED.advance(ms)

    def finish(self, scenario):
        scen = {'node': self.node_id, 'kind': 'bp', 'accept': bool(self.config.accept_after_verify),
                'probe': self.PROBE_EID, 'orig': {}}
        scen.update(scenario or {})
        dbus.RECORDER.sink = None
        out = [{'a': 'Scenario', 'seq': 0, 's': scen}] + self.log + [{'a': 'Final', 'seq': 0}]
        for (k, ev) in enumerate(out):
            ev['seq'] = k
        return out

''' Composition: two BP nodes, each a real bp.agent.Agent bound through the real bp.cla.UdpclAdaptor to a real
udpcl.agent.Agent on its own bus, the two UDPCL agents joined by the simulated datagram network.

    bundle -> BP X (route: forward, fragmentation by the route MTU) -> UdpclAdaptor -> D-Bus -> UDPCL X
           (segmentation by its MTU) -> datagrams in any order / repeated -> UDPCL Y (reassembly) -> signal
           -> UdpclAdaptor -> BP Y (re-assembly of fragments) -> application

One execution yields three traces, each validated against the specification of its layer: BpTrace for node X,
XferObs for the UDPCL hop, BpTrace for node Y (whose scenario knows the original payloads, so that what the
application at Y consumes is compared with what entered X).
'''
import boot  # noqa: F401
from gi.repository import GLib
import dbus

from harness.drivers.udpcl_world import UdpclWorld, RECEIVER, dig
from harness.drivers.bp_world import BpWorld

NODE_X, NODE_Y = 'dtn://x/', 'dtn://y/'
PROBE_Y = 'dtn://y/probe'
SERV = 'org.ietf.dtn.node.udpcl'


class CompWorld(object):

    def __init__(self, bp_mtu, udp_mtu):
        self.udp = UdpclWorld(udp_mtu, prop='C13', comp=True)
        sink = dbus.RECORDER.sink
        for bus in (self.udp.bus_s, self.udp.bus_r):
            bus.request_name(SERV)
        txp = {'address': RECEIVER[0], 'port': RECEIVER[1]}
        self.x = BpWorld(node_id=NODE_X, rx_routes=[('dtn://y/', 'forward')],
                         tx_routes=[('dtn://y/', NODE_Y, bp_mtu, 'udpcl')],
                         fresh=False, bus_key='udpcl-s', ext_cl={'udpcl': (SERV, txp)}, probe_eid='dtn://x/probe')
        self.y = BpWorld(node_id=NODE_Y, rx_routes=[(PROBE_Y, 'deliver'), ('dtn://y/', 'deliver')], tx_routes=[],
                         fresh=False, bus_key='udpcl-r', ext_cl={'udpcl': (SERV, {})}, probe_eid=PROBE_Y)
        dbus.RECORDER.sink = sink
        # what node X hands to its CL daemon is what left the node
        inner = self.udp.sender.send_bundle_data

        def send_bundle_data(data, params):
            self.x.on_clout(bytes(data), dict(params, next=NODE_Y, mtu=bp_mtu))
            return inner(data, params)
        self.udp.sender.send_bundle_data = send_bundle_data
        self.originals = {}
        self.done = 0
        self.once = True

    def inject(self, octets, note=''):
        ''' A bundle arrives at node X (from some other convergence layer). '''
        self.x.recv(octets, note=note)

    def _loops(self):
        """ Run idle callbacks and timers of every agent until nothing is ready (virtual time advances). """
        for _ in range(20000):
            ready = [s for s in GLib.SCHED.runnable() if s.kind in ('idle', 'timeout')]
            if ready:
                src = ready[0]
                (_ran, exc) = GLib.SCHED.run(src)
                owner = src.name[1]
                for w in (self.x, self.y):
                    if owner is w.agent or getattr(owner, '_agent', None) is w.agent:
                        if exc is not None:
                            w.emit('Escape', where=src.name[0], exc=type(exc).__name__, expected=False)
                        w.boundary(src.name[0])
                continue
            nxt = GLib.SCHED.next_timeout()
            if nxt is None or nxt > 600000:
                break
            GLib.SCHED.advance_to(nxt)

    def run(self, order='fifo', dups=0, drop=0, rnd=None):
        """ Node X and its UDPCL daemon run until every datagram is on the network; the datagrams are then
        delivered first-in first-out, reversed or shuffled, ``dups`` of them twice, ``drop`` of them never;
        then everything runs out.  :return: number of datagram deliveries """
        self._loops()
        idx = list(range(self.done, len(self.udp.pending)))
        self.done = len(self.udp.pending)
        if order == 'reverse':
            idx.reverse()
        elif order == 'shuffle' and rnd is not None:
            rnd.shuffle(idx)
        if drop and rnd is not None and len(idx) > drop:
            for _ in range(drop):
                idx.pop(rnd.randrange(len(idx)))
        seen = set()
        if dups or drop:
            self.once = False
        if dups and rnd is not None and idx:
            for _ in range(dups):
                idx.insert(rnd.randrange(len(idx) + 1), rnd.choice(idx))
        for i in idx:
            self.udp.deliver(i, fresh=i not in seen)
            seen.add(i)
            self._loops()
        self._loops()
        return len(idx)

    def finish(self):
        tx = self.x.finish({})
        tu = self.udp.finish(self.once)
        ty = self.y.finish({'orig': self.y_orig()})
        return tx, tu, ty

    def y_orig(self):
        out = {}
        for (base, pay) in self.x.originals.items():
            if pay is not None:
                out[base] = {'dig': dig(pay), 'len': len(pay)}
        return out

''' C14: negotiation and timers under virtual time.  Two real endpoints (or one endpoint and a
silent peer); the clock only advances when nothing else can run (scenario flag ``flush``), to the
next timer or scripted user action. '''
import random

import boot  # noqa: F401
from gi.repository import GLib
from harness.drivers.tcpcl_world import World, EndCfg
from harness.drivers.tcpcl_pair import payload
from harness.indep import tcpcl_codec as codec


def _next_timer(world):
    nxt = None
    for end in world.real_ends:
        for which in ('ka', 'idle'):
            for src in world.sources(end, which):
                if nxt is None or src.due < nxt[0]:
                    nxt = (src.due, end, which)
    return nxt


def run_timed(cfg_a, cfg_p, script, horizon_ms, seed=0, only=None, silent_after_init=False, prelude=b''):
    ''' script: list of (time_ms, op, end, arg) sorted by time; ops: send, term, query. '''
    world = World(cfg_a, cfg_p, only=only, auto_deliver=(only is None))
    ends = world.real_ends
    if only is None:
        world.start('P')
        world.start('A')
    else:
        world.start(only)
        peer = world.peer(only)

        def feed(octets):
            world.sock[peer].send(octets)
            world.sock[peer].deliver()
        world.run_fair(timers=False)
        feed(codec.enc_contact(0))
        world.run_fair(timers=False)
        feed(codec.enc_sess_init(keepalive=cfg_p.keepalive if only == 'A' else cfg_a.keepalive,
                                 seg_mru=1000, xfer_mru=2 ** 40, node_id='dtn://silent/'))
        if prelude:
            # the last thing the peer says before it goes silent (a transfer it never finishes, half a message)
            world.run_fair(timers=False)
            feed(prelude)
    world.run_fair(timers=False)
    pending = sorted(script, key=lambda it: it[0])
    nsent = {'A': 0, 'P': 0}
    guard = 0
    while guard < 5000:
        guard += 1
        world.run_fair(timers=False)
        nxt = _next_timer(world)
        t_timer = nxt[0] if nxt else None
        t_user = pending[0][0] if pending else None
        cands = [t for t in (t_timer, t_user) if t is not None and t <= horizon_ms]
        if not cands:
            break
        t = min(cands)
        GLib.SCHED.advance_to(t)
        if t_user is not None and t_user == t:
            (_t, op, end, arg) = pending.pop(0)
            if end in ends:
                if op == 'send':
                    nsent[end] += 1
                    world.user_send(end, payload(end, nsent[end], arg, seed))
                elif op == 'term':
                    world.user_terminate(end)
                elif op == 'query':
                    world.query(end)
            continue
        world.step(nxt[1], nxt[2])
    world.run_fair(timers=False)
    GLib.SCHED.advance_to(horizon_ms)
    for end in ends:
        world.query(end)
    return world.finish({'kind': 'timers' if only is None else 'timers1', 'flush': True, 'quiesced': True,
                         'real': list(ends), 'cooperative': False})


def run_slow_negotiation(victim, ka, idle, delay_ch_ms, delay_init_ms, after_ms, peer_ka=None):
    ''' One endpoint whose peer takes its time: its contact header comes ``delay_ch_ms`` after the endpoint
    started, its SESS_INIT ``delay_init_ms`` after that (both possibly longer than the keepalive interval and
    the idle time), then the session lasts ``after_ms`` more with a silent peer.  Timers that are due fire. '''
    cfg_v = EndCfg('dtn://solo/', keepalive=ka, idle=idle)
    cfg_o = EndCfg('dtn://slow/', keepalive=ka if peer_ka is None else peer_ka)
    world = World(cfg_v if victim == 'A' else cfg_o, cfg_v if victim == 'P' else cfg_o, only=victim, auto_deliver=False)
    peer = world.peer(victim)

    def feed(octets):
        try:
            world.sock[peer].send(octets)
        except OSError:
            return
        world.sock[peer].deliver()

    def until(t_ms):
        for _ in range(2000):
            world.run_fair(timers=False)
            nxt = _next_timer(world)
            if nxt is None or nxt[0] > t_ms:
                break
            GLib.SCHED.advance_to(nxt[0])
            world.step(nxt[1], nxt[2])
        GLib.SCHED.advance_to(t_ms)
    world.start(victim)
    until(delay_ch_ms)
    feed(codec.enc_contact(0))
    until(delay_ch_ms + delay_init_ms)
    feed(codec.enc_sess_init(keepalive=cfg_o.keepalive, seg_mru=1000, xfer_mru=2 ** 40, node_id='dtn://slow/'))
    until(delay_ch_ms + delay_init_ms + after_ms)
    world.run_fair(timers=False)
    world.query(victim)
    return world.finish({'kind': 'timers1', 'flush': True, 'quiesced': True, 'real': [victim], 'cooperative': False})


def slow_negotiation_executions(tier, seed):
    rnd = random.Random(seed * 17 + 5)
    traces, metas = [], []
    rows = [(v, ka, idle, dch, dinit) for v in ('A', 'P') for (ka, idle) in ((2, 0), (1, 0), (5, 3), (0, 2), (30, 0), (3, 20))
            for (dch, dinit) in ((0, 0), (3000, 0), (0, 3000), (2500, 7000), (12000, 100))]
    if tier == 'quick':
        rows = rnd.sample(rows, 24)
    for (v, ka, idle, dch, dinit) in rows:
        after = 2500 * max(1, min(ka, 4))
        traces.append(run_slow_negotiation(v, ka, idle, dch, dinit, after, peer_ka=rnd.choice([None, 0, 7])))
        metas.append({'kind': 'slow-negotiation', 'source': 'slow-negotiation', 'victim': v, 'keepalive': ka, 'idle': idle,
                      'contact_header_after_ms': dch, 'sess_init_after_ms': dinit, 'then_ms': after})
    return traces, metas


def run_adaptive(seed, mru, init, nbytes, tick_choices=(1, 5, 20, 80), nbundles=1, sender_burst=0):
    ''' Adaptive segment sizing: virtual time passes between callbacks so that ACK latencies differ.
    nbundles / sender_burst: several bundles are queued and the sender runs that many queue / pump callbacks
    before the peer reads anything, so that transfers are pipelined ahead of their acknowledgements. '''
    rnd = random.Random(seed)
    world = World(EndCfg('dtn://a/', seg_mru=10 ** 7, seg_init=init, modulate=rnd.choice([1, 2, 5])),
                  EndCfg('dtn://p/', seg_mru=mru, seg_init=init))
    world.start('P')
    world.start('A')
    world.run_fair(timers=False)
    for k in range(nbundles):
        world.user_send('A', payload('A', 1 + k, nbytes + 10 * k, seed + k))
    for _ in range(sender_burst):
        world.step('A', 'pq')
        world.step('A', 'tx')
    for _ in range(3000):
        roles = world.runnable_roles()
        if not roles:
            break
        (end, which) = rnd.choice(roles)
        world.step(end, which)
        world.tick(rnd.choice(tick_choices))
    world.tick_ms = 3
    world.run_fair(timers=False, pop=True, max_steps=20000)
    return world.finish({'kind': 'pair', 'flush': False, 'quiesced': True})


def run_keepalive_mid_drain(seed, ka, nbytes, tx_steps, quota, who='A'):
    ''' A timer fires while a message larger than one transmit chunk is only partly handed to the socket: the
    sender has run ``tx_steps`` transmit callbacks (the socket taking ``quota`` octets per call) when its keepalive
    timer comes due.  Whatever the timer sends must follow the message that is under way. '''
    other = 'P' if who == 'A' else 'A'
    world = World(EndCfg('dtn://a/', keepalive=ka, seg_mru=10 ** 7, seg_init=10 ** 6),
                  EndCfg('dtn://p/', keepalive=ka, seg_mru=10 ** 7, seg_init=10 ** 6))
    world.start('P')
    world.start('A')
    world.run_fair(timers=False)
    world.user_send(who, payload(who, 1, nbytes, seed))
    world.step(who, 'pq')
    for _ in range(tx_steps):
        world.step(who, 'tx', quota)
    world.step(who, 'ka')
    if seed % 2:
        world.step(other, 'ka')
    world.run_fair(timers=False, pop=True, max_steps=20000)
    return world.finish({'kind': 'pair', 'flush': False, 'quiesced': True})


def keepalive_mid_drain_executions(tier, seed):
    rnd = random.Random(seed * 19 + 6)
    traces, metas = [], []
    cases = [(1, 40000, 1, None), (2, 40000, 2, None), (1, 25000, 1, 3000), (5, 10241, 1, None), (1, 10240, 1, None),
             (30, 70000, 3, 9000), (1, 40000, 0, None), (2, 30000, 1, 1)]
    for _ in range(4 if tier != 'thorough' else 60):
        cases.append((rnd.choice([1, 2, 7]), rnd.choice([10239, 10300, 20480, 20481, 50000]), rnd.choice([1, 1, 2, 3, 4]),
                      rnd.choice([None, None, 100, 5000, 10240])))
    for (i, (ka, nbytes, txs, quota)) in enumerate(cases):
        who = 'AP'[i % 2]
        traces.append(run_keepalive_mid_drain(seed + i, ka, nbytes, txs, quota, who=who))
        metas.append({'kind': 'keepalive-mid-drain', 'source': 'keepalive-mid-drain', 'keepalive': ka, 'bytes': nbytes,
                      'tx_callbacks_before_timer': txs, 'socket_takes': quota or 'all', 'sender': who})
    return traces, metas


def executions(tier, seed):
    rnd = random.Random(seed * 13 + 1)
    traces, metas = [], []
    kas = [0, 1, 2, 5, 30, 65535]
    idles = [0, 3, 10]
    combos = [(ka_a, ka_p, ia, ip) for ka_a in kas for ka_p in kas for ia in idles for ip in idles]
    if tier == 'quick':
        combos = rnd.sample(combos, 70)
    for (i, (ka_a, ka_p, ia, ip)) in enumerate(combos):
        neg = min(ka_a, ka_p)
        base = [d for d in (neg, ia, ip) if 0 < d < 1000]
        unit = (min(base) if base else 2) * 1000
        script = []
        # traffic just before / at / just after a deadline
        for (k, off) in enumerate(rnd.sample([-1, 0, 1, unit // 2, -unit // 3], 2)):
            script.append((max(1, unit * (k + 1) + off), 'send', rnd.choice('AP'), rnd.choice([0, 1, 40])))
        if i % 5 == 0:
            script.append((unit * 2 + 7, 'term', rnd.choice('AP'), 0))
        if i % 3 == 0:
            script.append((unit + 3, 'query', 'A', 0))
        horizon = min(200000, unit * 5 + 2500)
        cfg_a = EndCfg('dtn://node-a/', keepalive=ka_a, idle=ia, seg_mru=rnd.choice([64, 2 ** 31, 2 ** 40]),
                       seg_init=rnd.choice([10, 100000]))
        cfg_p = EndCfg('dtn://node-p/', keepalive=ka_p, idle=ip, seg_mru=rnd.choice([1, 300, 2 ** 64 - 1]),
                       seg_init=rnd.choice([3, 100000]))
        traces.append(run_timed(cfg_a, cfg_p, script, horizon, seed=seed + i))
        metas.append({'kind': 'pair-timers', 'keepalive': [ka_a, ka_p], 'idle': [ia, ip], 'horizon_ms': horizon,
                      'script': script})
    # one endpoint, peer silent after SESS_INIT: idle timeout, then "already terminating still closes"
    for (i, (ka, idle)) in enumerate([(0, 1), (0, 3), (1, 3), (2, 2), (5, 4), (30, 2)]):
        for only in ('A', 'P'):
            cfg = EndCfg('dtn://solo/', keepalive=ka, idle=idle)
            other = EndCfg('dtn://silent/', keepalive=ka)
            horizon = idle * 4000 + 3000
            # the peer falls silent with nothing outstanding / with the victim's transfer never acknowledged /
            # in the middle of a transfer of its own / in the middle of a message
            variants = [('quiet', [], b''),
                        ('unacked', [(1, 'send', only, 40)], b''),
                        ('half-received', [], codec.enc_segment(7, b'abc', codec.SEG_START, [codec.ext_total_length(9)])),
                        ('half-message', [], codec.enc_segment(8, b'abcdef', codec.SEG_START,
                                                               [codec.ext_total_length(6)])[:-3])]
            if 0 < ka < idle:
                # the idle timer cannot start the termination here (the endpoint's own KEEPALIVEs are traffic):
                # the user does, and the endpoint - still sending KEEPALIVEs - closes after the idle time
                variants = [(n, sc + [(500 + 300 * j, 'term', only, 0)], pre) for (j, (n, sc, pre)) in enumerate(variants)]
            for (vname, script, prelude) in (variants if (i % 2 == 0 or tier == 'thorough') else variants[:2]):
                traces.append(run_timed(cfg if only == 'A' else other, cfg if only == 'P' else other, script, horizon,
                                        seed=seed, only=only, prelude=prelude))
                metas.append({'kind': 'silent-peer', 'victim': only, 'keepalive': ka, 'idle': idle,
                              'horizon_ms': horizon, 'outstanding': vname})
    (str_, sme) = slow_negotiation_executions(tier, seed)
    traces += str_
    metas += sme
    (ktr, kme) = keepalive_mid_drain_executions(tier, seed)
    traces += ktr
    metas += kme
    nad = 12 if tier == 'quick' else 200
    for i in range(nad):
        mru = rnd.choice([1, 500, 9000, 10240, 20000, 10 ** 6])
        init = rnd.choice([100, 10240, 102400])
        nbytes = min(rnd.choice([1000, 60000, 250000]), mru * 120)
        traces.append(run_adaptive(seed * 100 + i, mru, init, nbytes))
        metas.append({'kind': 'adaptive', 'peer_mru': mru, 'seg_init': init, 'bytes': nbytes})
    # pipelined transfers under adaptive sizing: acknowledgements of one transfer arrive while the next is sent
    for i in range(8 if tier == 'quick' else 120):
        mru = rnd.choice([50, 500, 9000])
        nbytes = mru * rnd.choice([2, 3]) + rnd.choice([0, 20])
        nb = rnd.choice([2, 3])
        traces.append(run_adaptive(seed * 100 + 50 + i, mru, 100000, nbytes, nbundles=nb, sender_burst=rnd.choice([6, 12, 30])))
        metas.append({'kind': 'adaptive-pipelined', 'peer_mru': mru, 'bundles': nb, 'bytes': nbytes})
    return traces, metas

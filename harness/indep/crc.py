''' Bitwise CRC-16/X.25 and CRC-32C (Castagnoli), written from the catalogue parameters
(reflected, init all-ones, final xor all-ones).  Deliberately not table driven so that it shares
nothing with the crcmod shim used by the implementation under test. '''


def _bitwise(data, poly_reflected, width):
    mask = (1 << width) - 1
    reg = mask
    for octet in bytes(data):
        reg ^= octet
        for _ in range(8):
            if reg & 1:
                reg = (reg >> 1) ^ poly_reflected
            else:
                reg >>= 1
    return (reg ^ mask) & mask


def crc16_x25(data):
    return _bitwise(data, 0x8408, 16)


def crc32c(data):
    return _bitwise(data, 0x82F63B78, 32)


assert crc16_x25(b'123456789') == 0x906E
assert crc32c(b'123456789') == 0xE3069283

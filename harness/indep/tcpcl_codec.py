''' Independent RFC 9174 (TCPCLv4) codec, written from the RFC with ``struct`` only.
Shares no code with /repo.  Used to (a) parse the octet streams the implementation
writes and (b) encode messages fed to the implementation.

Decoded messages are plain dicts:
  {'t': 'CH', 'magic': b'dtn!', 'version': 4, 'flags': int, 'size': n}
  {'t': 'INIT', 'keepalive', 'seg_mru', 'xfer_mru', 'node_id', 'ext': [...], 'size'}
  {'t': 'SEG', 'flags', 'id', 'ext': [...], 'len', 'data', 'size'}    flags: END=1 START=2
  {'t': 'ACK', 'flags', 'id', 'len', 'size'}
  {'t': 'REFUSE', 'reason', 'id', 'size'}
  {'t': 'KA', 'size'}   {'t': 'TERM', 'flags', 'reason', 'size'}   REPLY=1
  {'t': 'REJECT', 'reason', 'rej_type', 'size'}   reason: 1 unknown type, 2 unsupported, 3 unexpected
  {'t': 'UNKNOWN', 'type': n}
'''
import struct

MAGIC = b'dtn!'
XFER_SEGMENT, XFER_ACK, XFER_REFUSE, KEEPALIVE, SESS_TERM, MSG_REJECT, SESS_INIT = 1, 2, 3, 4, 5, 6, 7
SEG_END, SEG_START = 1, 2
TERM_REPLY = 1


class Partial(Exception):
    ''' Not enough octets yet. '''


class Malformed(Exception):
    pass


def _need(buf, off, n):
    if len(buf) - off < n:
        raise Partial()


def _ext_items(buf):
    items = []
    off = 0
    while off < len(buf):
        if len(buf) - off < 5:
            raise Malformed('truncated extension item')
        (flags, typ, ln) = struct.unpack_from('!BHH', buf, off)
        off += 5
        if len(buf) - off < ln:
            raise Malformed('truncated extension value')
        val = bytes(buf[off:off + ln])
        off += ln
        item = {'flags': flags, 'type': typ, 'len': ln, 'value': val}
        items.append(item)
    return items


def decode_contact(buf, off=0):
    _need(buf, off, 6)
    magic = bytes(buf[off:off + 4])
    version = buf[off + 4]
    flags = buf[off + 5]
    return {'t': 'CH', 'magic': magic, 'version': version, 'flags': flags, 'size': 6}


def decode_message(buf, off=0):
    ''' Decode one message at ``off``. :raise Partial: if incomplete. '''
    _need(buf, off, 1)
    typ = buf[off]
    p = off + 1
    if typ == XFER_SEGMENT:
        _need(buf, p, 9)
        (flags, tid) = struct.unpack_from('!BQ', buf, p)
        p += 9
        ext = []
        if flags & SEG_START:
            _need(buf, p, 4)
            (elen,) = struct.unpack_from('!I', buf, p)
            p += 4
            _need(buf, p, elen)
            ext = _ext_items(bytes(buf[p:p + elen]))
            p += elen
        _need(buf, p, 8)
        (dlen,) = struct.unpack_from('!Q', buf, p)
        p += 8
        _need(buf, p, dlen)
        data = bytes(buf[p:p + dlen])
        p += dlen
        return {'t': 'SEG', 'flags': flags, 'id': tid, 'ext': ext, 'len': dlen, 'data': data, 'size': p - off}
    if typ == XFER_ACK:
        _need(buf, p, 17)
        (flags, tid, ln) = struct.unpack_from('!BQQ', buf, p)
        return {'t': 'ACK', 'flags': flags, 'id': tid, 'len': ln, 'size': 18}
    if typ == XFER_REFUSE:
        _need(buf, p, 9)
        (reason, tid) = struct.unpack_from('!BQ', buf, p)
        return {'t': 'REFUSE', 'reason': reason, 'id': tid, 'size': 10}
    if typ == KEEPALIVE:
        return {'t': 'KA', 'size': 1}
    if typ == SESS_TERM:
        _need(buf, p, 2)
        return {'t': 'TERM', 'flags': buf[p], 'reason': buf[p + 1], 'size': 3}
    if typ == MSG_REJECT:
        _need(buf, p, 2)
        return {'t': 'REJECT', 'reason': buf[p], 'rej_type': buf[p + 1], 'size': 3}
    if typ == SESS_INIT:
        _need(buf, p, 2 + 8 + 8 + 2)
        (ka, smru, xmru, nlen) = struct.unpack_from('!HQQH', buf, p)
        p += 20
        _need(buf, p, nlen)
        node = bytes(buf[p:p + nlen])
        p += nlen
        _need(buf, p, 4)
        (elen,) = struct.unpack_from('!I', buf, p)
        p += 4
        _need(buf, p, elen)
        ext = _ext_items(bytes(buf[p:p + elen]))
        p += elen
        try:
            node_s = node.decode('utf-8')
        except UnicodeDecodeError:
            raise Malformed('node id not UTF-8')
        return {'t': 'INIT', 'keepalive': ka, 'seg_mru': smru, 'xfer_mru': xmru, 'node_id': node_s,
                'ext': ext, 'size': p - off}
    return {'t': 'UNKNOWN', 'type': typ, 'size': None}


def parse_stream(buf):
    ''' Parse a whole direction of a connection: contact header, then messages.
    :return: (messages, consumed octets, status) with status in 'complete' | 'partial' | 'unknown' | 'malformed'
    '''
    msgs = []
    off = 0
    try:
        ch = decode_contact(buf, 0)
    except Partial:
        return msgs, 0, ('partial' if buf else 'complete')
    msgs.append(ch)
    off = 6
    while off < len(buf):
        try:
            m = decode_message(buf, off)
        except Partial:
            return msgs, off, 'partial'
        except Malformed:
            return msgs, off, 'malformed'
        if m['t'] == 'UNKNOWN':
            return msgs, off, 'unknown'
        msgs.append(m)
        off += m['size']
    return msgs, off, 'complete'


# ---------------------------------------------------------------- encoder
def enc_contact(flags=0, version=4, magic=MAGIC):
    return magic + bytes([version, flags])


def enc_ext(items):
    out = b''
    for it in items:
        out += struct.pack('!BHH', it.get('flags', 0), it['type'], len(it['value'])) + it['value']
    return out


def ext_total_length(total):
    return {'flags': 0, 'type': 1, 'value': struct.pack('!Q', total)}


def enc_sess_init(keepalive=0, seg_mru=2 ** 64 - 1, xfer_mru=2 ** 64 - 1, node_id='', ext=()):
    node = node_id.encode('utf-8')
    e = enc_ext(ext)
    return bytes([SESS_INIT]) + struct.pack('!HQQH', keepalive, seg_mru, xfer_mru, len(node)) + node + \
        struct.pack('!I', len(e)) + e


def enc_segment(tid, data, flags, ext=()):
    out = bytes([XFER_SEGMENT]) + struct.pack('!BQ', flags, tid)
    if flags & SEG_START:
        e = enc_ext(ext)
        out += struct.pack('!I', len(e)) + e
    out += struct.pack('!Q', len(data)) + data
    return out


def enc_ack(tid, length, flags):
    return bytes([XFER_ACK]) + struct.pack('!BQQ', flags, tid, length)


def enc_refuse(tid, reason):
    return bytes([XFER_REFUSE]) + struct.pack('!BQ', reason, tid)


def enc_keepalive():
    return bytes([KEEPALIVE])


def enc_sess_term(reason=0, flags=0):
    return bytes([SESS_TERM, flags, reason])


def enc_reject(rej_type, reason):
    return bytes([MSG_REJECT, reason, rej_type])


def total_length_of(seg):
    ''' Value of the Transfer Length extension of a START segment, or None. '''
    for it in seg.get('ext', ()):
        if it['type'] == 1 and it['len'] == 8:
            return struct.unpack('!Q', it['value'])[0]
    return None

''' Independent RFC 9171 (BPv7) reader and writer, written from the RFC (and RFC 8949 for the
CBOR heads) with no code shared with /repo and without cbor2 on the reading side, so that
definite/indefinite framing and head widths are visible.

read_bundle(octets) -> dict (see below) or raises Malformed.
write_bundle(primary, blocks) -> octets (deterministic, shortest-form heads).
'''
import struct

from harness.indep import crc as icrc


class Malformed(Exception):
    pass


# ------------------------------------------------------------------ CBOR reading
class Item(object):
    ''' One CBOR data item with its framing. '''
    __slots__ = ('mt', 'val', 'start', 'end', 'hlen', 'indef', 'kids', 'tagged', 'simple')

    def __init__(self, mt, val, start, end, hlen, indef=False, kids=None):
        self.mt = mt
        self.val = val
        self.start = start
        self.end = end
        self.hlen = hlen
        self.indef = indef
        self.kids = kids


def read_item(buf, off=0, depth=0):
    if depth > 32:
        raise Malformed('nesting too deep')
    if off >= len(buf):
        raise Malformed('truncated item')
    ib = buf[off]
    mt, ai = ib >> 5, ib & 0x1F
    hlen = 1
    if ai < 24:
        arg = ai
    elif ai == 24:
        hlen = 2
    elif ai == 25:
        hlen = 3
    elif ai == 26:
        hlen = 5
    elif ai == 27:
        hlen = 9
    elif ai == 31:
        arg = None
    else:
        raise Malformed('reserved additional information %d' % ai)
    if hlen > 1:
        if off + hlen > len(buf):
            raise Malformed('truncated head')
        arg = int.from_bytes(buf[off + 1:off + hlen], 'big')
    pos = off + hlen
    if mt in (0, 1):
        if arg is None:
            raise Malformed('indefinite integer')
        return Item(mt, arg if mt == 0 else -1 - arg, off, pos, hlen)
    if mt in (2, 3):
        if arg is None:
            chunks = []
            while True:
                if pos >= len(buf):
                    raise Malformed('truncated indefinite string')
                if buf[pos] == 0xFF:
                    pos += 1
                    break
                sub = read_item(buf, pos, depth + 1)
                if sub.mt != mt or sub.indef:
                    raise Malformed('bad chunk in indefinite string')
                chunks.append(sub.val)
                pos = sub.end
            val = b''.join(chunks) if mt == 2 else ''.join(chunks)
            return Item(mt, val, off, pos, hlen, indef=True)
        if pos + arg > len(buf):
            raise Malformed('truncated string')
        raw = bytes(buf[pos:pos + arg])
        if mt == 3:
            try:
                raw = raw.decode('utf-8')
            except UnicodeDecodeError:
                raise Malformed('text string not UTF-8')
        return Item(mt, raw, off, pos + arg, hlen)
    if mt in (4, 5):
        kids = []
        count = arg
        per = 1 if mt == 4 else 2
        if arg is None:
            while True:
                if pos >= len(buf):
                    raise Malformed('truncated indefinite container')
                if buf[pos] == 0xFF:
                    pos += 1
                    break
                sub = read_item(buf, pos, depth + 1)
                kids.append(sub)
                pos = sub.end
            if mt == 5 and len(kids) % 2:
                raise Malformed('odd map')
        else:
            for _ in range(count * per):
                sub = read_item(buf, pos, depth + 1)
                kids.append(sub)
                pos = sub.end
        return Item(mt, None, off, pos, hlen, indef=(arg is None), kids=kids)
    if mt == 6:
        if arg is None:
            raise Malformed('indefinite tag')
        sub = read_item(buf, pos, depth + 1)
        it = Item(6, arg, off, sub.end, hlen, kids=[sub])
        return it
    # mt == 7
    if ai == 20:
        return Item(7, False, off, pos, hlen)
    if ai == 21:
        return Item(7, True, off, pos, hlen)
    if ai == 22:
        return Item(7, None, off, pos, hlen)
    if ai == 31:
        raise Malformed('unexpected break')
    if ai in (25, 26, 27):
        fmt = {25: '>e', 26: '>f', 27: '>d'}[ai]
        return Item(7, struct.unpack(fmt, buf[off + 1:off + hlen])[0], off, pos, hlen)
    return Item(7, ('simple', arg), off, pos, hlen)


def to_py(item):
    ''' Plain Python value of an item tree. '''
    if item.mt == 4:
        return [to_py(k) for k in item.kids]
    if item.mt == 5:
        return {_key(to_py(item.kids[i])): to_py(item.kids[i + 1]) for i in range(0, len(item.kids), 2)}
    if item.mt == 6:
        return ('tag', item.val, to_py(item.kids[0]))
    return item.val


def _key(val):
    ''' Map keys of any CBOR type as something hashable. '''
    if isinstance(val, list):
        return tuple(_key(v) for v in val)
    if isinstance(val, dict):
        return tuple(sorted((repr(k), repr(v)) for (k, v) in val.items()))
    try:
        hash(val)
    except TypeError:
        return repr(val)
    return val


def is_uint(item):
    return item.mt == 0


# ------------------------------------------------------------------ CBOR writing
def head(mt, arg):
    if arg < 24:
        return bytes([mt << 5 | arg])
    if arg < 2 ** 8:
        return bytes([mt << 5 | 24, arg])
    if arg < 2 ** 16:
        return bytes([mt << 5 | 25]) + arg.to_bytes(2, 'big')
    if arg < 2 ** 32:
        return bytes([mt << 5 | 26]) + arg.to_bytes(4, 'big')
    return bytes([mt << 5 | 27]) + arg.to_bytes(8, 'big')


def enc(val):
    if isinstance(val, bool):
        return b'\xf5' if val else b'\xf4'
    if val is None:
        return b'\xf6'
    if isinstance(val, int):
        return head(0, val) if val >= 0 else head(1, -1 - val)
    if isinstance(val, (bytes, bytearray)):
        return head(2, len(val)) + bytes(val)
    if isinstance(val, str):
        raw = val.encode('utf-8')
        return head(3, len(raw)) + raw
    if isinstance(val, (list, tuple)):
        return head(4, len(val)) + b''.join(enc(v) for v in val)
    if isinstance(val, dict):
        return head(5, len(val)) + b''.join(enc(k) + enc(v) for (k, v) in val.items())
    raise TypeError(type(val))


# ------------------------------------------------------------------ EIDs
def eid_to_text(val):
    ''' CBOR EID structure -> URI text, or raise Malformed. '''
    if not isinstance(val, list) or len(val) != 2 or not isinstance(val[0], int):
        raise Malformed('EID is not a two-element array')
    scheme, ssp = val
    if scheme == 1:
        if ssp == 0:
            return 'dtn:none'
        if isinstance(ssp, str):
            return 'dtn:' + ssp
        raise Malformed('dtn SSP neither 0 nor text')
    if scheme == 2:
        if isinstance(ssp, list) and len(ssp) in (2, 3) and all(isinstance(x, int) and x >= 0 for x in ssp):
            return 'ipn:' + '.'.join(str(x) for x in ssp)
        raise Malformed('ipn SSP is not an array of 2 or 3 unsigned integers')
    raise Malformed('unknown EID scheme %r' % (scheme,))


def text_to_eid(text):
    if text is None or text == 'dtn:none':
        return [1, 0]
    if text.startswith('dtn:'):
        return [1, text[4:]]
    if text.startswith('ipn:'):
        return [2, [int(x) for x in text[4:].split('.')]]
    raise ValueError(text)


# ------------------------------------------------------------------ bundles
FLAG_NAMES = {0x000001: 'FRAG', 0x000002: 'ADMIN', 0x000004: 'NOFRAG', 0x000020: 'ACKREQ', 0x000040: 'TIME',
              0x004000: 'RCVREP', 0x010000: 'FWDREP', 0x020000: 'DLVREP', 0x040000: 'DELREP'}


def _crc_of(buf, item, crc_type, crc_item):
    ''' CRC over the block's encoding with the CRC field's octets zeroed. '''
    raw = bytearray(buf[item.start:item.end])
    lo = crc_item.start + crc_item.hlen - item.start
    hi = crc_item.end - item.start
    for i in range(lo, hi):
        raw[i] = 0
    if crc_type == 1:
        return icrc.crc16_x25(bytes(raw)).to_bytes(2, 'big')
    return icrc.crc32c(bytes(raw)).to_bytes(4, 'big')


def read_bundle(buf):
    ''' Parse a bundle strictly per RFC 9171 section 4.
    :return: dict(primary=..., blocks=[...], problems=[...], spans=...) ; raises Malformed if not even CBOR. '''
    buf = bytes(buf)
    top = read_item(buf, 0)
    problems = []
    if top.end != len(buf):
        problems.append('trailing octets after bundle')
    if top.mt != 4:
        raise Malformed('bundle is not an array')
    if not top.indef:
        problems.append('outer array is definite-length')
    if len(top.kids) < 2:
        problems.append('fewer than two blocks')
    if not top.kids:
        raise Malformed('empty bundle')
    pitem = top.kids[0]
    if pitem.mt != 4 or pitem.indef:
        raise Malformed('primary block is not a definite array')
    pk = pitem.kids
    if not (8 <= len(pk) <= 11):
        raise Malformed('primary block has %d items' % len(pk))
    for ix in (0, 1, 2, 7):
        if not is_uint(pk[ix]):
            raise Malformed('primary item %d not unsigned' % ix)
    version, flags, crc_type = pk[0].val, pk[1].val, pk[2].val
    if version != 7:
        problems.append('version %d' % version)
    if crc_type not in (0, 1, 2):
        raise Malformed('primary CRC type %d' % crc_type)
    is_frag = bool(flags & 1)
    want = 8 + (2 if is_frag else 0) + (1 if crc_type else 0)
    if len(pk) != want:
        problems.append('primary block has %d items, flags/CRC type need %d' % (len(pk), want))
    dest = eid_to_text(to_py(pk[3]))
    src = eid_to_text(to_py(pk[4]))
    rpt = eid_to_text(to_py(pk[5]))
    ts = to_py(pk[6])
    if not (isinstance(ts, list) and len(ts) == 2 and all(isinstance(x, int) and x >= 0 for x in ts)):
        raise Malformed('creation timestamp')
    pos = 8
    frag_off = total = None
    if is_frag and len(pk) >= 10:
        if not (is_uint(pk[8]) and is_uint(pk[9])):
            raise Malformed('fragment fields')
        frag_off, total = pk[8].val, pk[9].val
        pos = 10
    pcrc = None
    pcrc_ok = True
    if crc_type:
        if len(pk) <= pos or pk[pos].mt != 2:
            problems.append('primary CRC field missing')
            pcrc_ok = False
        else:
            pcrc = pk[pos].val
            if len(pcrc) != (2 if crc_type == 1 else 4):
                problems.append('primary CRC field width')
                pcrc_ok = False
            else:
                pcrc_ok = (pcrc == _crc_of(buf, pitem, crc_type, pk[pos]))
    elif len(pk) > pos:
        problems.append('primary CRC field present with CRC type 0')
        pcrc_ok = False
    primary = {'version': version, 'flags': flags, 'crc_type': crc_type, 'dest': dest, 'src': src, 'rpt': rpt,
               'ts_time': ts[0], 'ts_seq': ts[1], 'lifetime': pk[7].val, 'frag_off': frag_off, 'total': total,
               'crc': pcrc, 'crc_ok': pcrc_ok, 'span': (pitem.start, pitem.end), 'nitems': len(pk)}
    blocks = []
    for item in top.kids[1:]:
        if item.mt != 4 or item.indef:
            raise Malformed('canonical block is not a definite array')
        k = item.kids
        if len(k) not in (5, 6):
            raise Malformed('canonical block has %d items' % len(k))
        for ix in (0, 1, 2, 3):
            if not is_uint(k[ix]):
                raise Malformed('canonical item %d not unsigned' % ix)
        btype, num, bflags, bcrc = k[0].val, k[1].val, k[2].val, k[3].val
        if bcrc not in (0, 1, 2):
            raise Malformed('block CRC type %d' % bcrc)
        if k[4].mt != 2:
            raise Malformed('block-type-specific data is not a byte string')
        if k[4].indef:
            problems.append('block data is an indefinite-length string')
        crc_val = None
        crc_ok = True
        if bcrc:
            if len(k) != 6 or k[5].mt != 2 or len(k[5].val) != (2 if bcrc == 1 else 4):
                problems.append('block %d CRC field missing or of wrong width' % num)
                crc_ok = False
            else:
                crc_val = k[5].val
                crc_ok = (crc_val == _crc_of(buf, item, bcrc, k[5]))
        elif len(k) == 6:
            problems.append('block %d carries a CRC field with CRC type 0' % num)
            crc_ok = False
        blocks.append({'type': btype, 'num': num, 'flags': bflags, 'crc_type': bcrc, 'data': k[4].val,
                       'crc': crc_val, 'crc_ok': crc_ok, 'span': (item.start, item.end),
                       'data_span': (k[4].start + k[4].hlen, k[4].end), 'nitems': len(k)})
    nums = [b['num'] for b in blocks]
    if len(set(nums)) != len(nums):
        problems.append('duplicate block numbers')
    if 0 in nums:
        problems.append('block number 0')
    pay = [i for (i, b) in enumerate(blocks) if b['type'] == 1]
    if len(pay) != 1:
        problems.append('%d payload blocks' % len(pay))
    else:
        if pay[0] != len(blocks) - 1:
            problems.append('payload block is not last')
        if blocks[pay[0]]['num'] != 1:
            problems.append('payload block number is %d' % blocks[pay[0]]['num'])
    for b in blocks:
        if b['type'] != 1 and b['num'] == 1:
            problems.append('block number 1 used by a non-payload block')
    return {'primary': primary, 'blocks': blocks, 'problems': problems, 'size': len(buf)}


def payload_of(bun):
    for b in bun['blocks']:
        if b['type'] == 1:
            return b['data']
    return None


def flags_of(bun):
    return sorted(name for (bit, name) in FLAG_NAMES.items() if bun['primary']['flags'] & bit)


def ident_of(bun):
    p = bun['primary']
    ident = [p['src'], p['ts_time'], p['ts_seq']]
    if p['flags'] & 1:
        ident += [p['frag_off'], p['total']]
    return tuple(ident)


# ------------------------------------------------------------------ block-type-specific data
def read_block_data(btype, data):
    ''' Decode the well-known extension blocks. :return: (kind, value) '''
    try:
        item = read_item(data, 0)
        if item.end != len(data):
            return ('garbled', None)
        val = to_py(item)
    except Malformed:
        return ('garbled', None)
    try:
        if btype == 6:
            return ('prev', eid_to_text(val))
        if btype == 7:
            if isinstance(val, int) and val >= 0:
                return ('age', val)
        if btype == 10:
            if isinstance(val, list) and len(val) == 2 and all(isinstance(x, int) and x >= 0 for x in val):
                return ('hop', (val[0], val[1]))
    except Malformed:
        return ('garbled', None)
    if btype in (6, 7, 10):
        return ('garbled', None)
    return ('other', val)


def read_admin_record(data):
    ''' Payload of an administrative-record bundle.
    :return: dict(type, and for status reports: asserted{received,forwarded,delivered,deleted -> (bool, time|None)},
             reason, subj_src, subj_ts (time, seq), frag_off, frag_len) '''
    item = read_item(data, 0)
    if item.end != len(data):
        raise Malformed('trailing octets in administrative record')
    val = to_py(item)
    if not (isinstance(val, list) and len(val) == 2 and isinstance(val[0], int)):
        raise Malformed('administrative record is not [type, content]')
    if val[0] != 1:
        return {'type': val[0], 'content': val[1]}
    rep = val[1]
    if not (isinstance(rep, list) and len(rep) in (4, 6)):
        raise Malformed('status report array length')
    info, reason, subj_src, subj_ts = rep[0], rep[1], rep[2], rep[3]
    if not (isinstance(info, list) and len(info) == 4):
        raise Malformed('status information array')
    names = ('received', 'forwarded', 'delivered', 'deleted')
    asserted = {}
    for (name, ent) in zip(names, info):
        if not (isinstance(ent, list) and len(ent) in (1, 2) and isinstance(ent[0], bool)):
            raise Malformed('status item %s' % name)
        if len(ent) == 2 and not ent[0]:
            raise Malformed('time with unasserted status %s' % name)
        asserted[name] = (ent[0], ent[1] if len(ent) == 2 else None)
    if not (isinstance(reason, int) and reason >= 0):
        raise Malformed('reason code')
    if not (isinstance(subj_ts, list) and len(subj_ts) == 2):
        raise Malformed('subject timestamp')
    out = {'type': 1, 'asserted': asserted, 'reason': reason, 'subj_src': eid_to_text(subj_src),
           'subj_ts': (subj_ts[0], subj_ts[1]), 'frag_off': None, 'frag_len': None}
    if len(rep) == 6:
        out['frag_off'], out['frag_len'] = rep[4], rep[5]
    return out


# ------------------------------------------------------------------ writer
def _with_crc(items, crc_type):
    ''' Encode a block array, computing its CRC. '''
    if not crc_type:
        return enc(items)
    width = 2 if crc_type == 1 else 4
    raw = enc(items + [bytes(width)])
    val = icrc.crc16_x25(raw) if crc_type == 1 else icrc.crc32c(raw)
    return enc(items + [val.to_bytes(width, 'big')])


def write_primary(p):
    items = [p.get('version', 7), p['flags'], p.get('crc_type', 0), text_to_eid(p['dest']), text_to_eid(p['src']),
             text_to_eid(p.get('rpt', 'dtn:none')), [p['ts_time'], p['ts_seq']], p.get('lifetime', 3600000)]
    if p['flags'] & 1:
        items += [p['frag_off'], p['total']]
    return _with_crc(items, p.get('crc_type', 0))


def write_block(b):
    items = [b['type'], b['num'], b.get('flags', 0), b.get('crc_type', 0), bytes(b['data'])]
    return _with_crc(items, b.get('crc_type', 0))


def write_bundle(primary, blocks, definite=False):
    body = write_primary(primary) + b''.join(write_block(b) for b in blocks)
    if definite:
        return head(4, 1 + len(blocks)) + body
    return b'\x9f' + body + b'\xff'

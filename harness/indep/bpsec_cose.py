''' Independent construction of the BPSec COSE context (RFC 9172 abstract security block,
draft-ietf-bpsec-cose external AAD, RFC 9052 COSE_Mac0 / COSE_Encrypt0), using only
harness/indep/bp7.py for CBOR, hmac/hashlib and the AES-GCM primitive of ``cryptography``.
Shares no code with /repo and does not use pycose.

What is covered by an operation is *constructed* here: external_aad() is the statement of
"everything the MAC / AEAD tag binds besides the target's data".
'''
import hashlib
import hmac

from cryptography.hazmat.primitives.ciphers.aead import AESGCM

from harness.indep import bp7

CTX_COSE = 3
PARAM_ADDL_PROTECTED = 3
PARAM_ADDL_UNPROTECTED = 4
PARAM_AAD_SCOPE = 5
TAG_MAC0, TAG_MAC, TAG_SIGN1, TAG_ENC0, TAG_ENC = 17, 97, 18, 16, 96
META, BTSD = 1, 2
HMACS = {5: ('sha256', 32), 6: ('sha384', 48), 7: ('sha512', 64), 4: ('sha256', 8)}
AESGCM_ALGS = {1: 16, 2: 24, 3: 32}


class BadSecurityBlock(Exception):
    pass


# ------------------------------------------------------------------ abstract security block
def write_asb(targets, ctx_id, source, params, results):
    ''' params: list of (id, python value) or None;  results: per target list of (id, bytes value) '''
    out = bp7.enc(list(targets)) + bp7.enc(ctx_id) + bp7.enc(1 if params is not None else 0) + \
        bp7.enc(bp7.text_to_eid(source))
    if params is not None:
        out += bp7.head(4, len(params)) + b''.join(bp7.head(4, 2) + bp7.enc(pid) + enc_param(pid, val)
                                                    for (pid, val) in params)
    out += bp7.head(4, len(results))
    for tres in results:
        out += bp7.head(4, len(tres)) + b''.join(bp7.head(4, 2) + bp7.enc(rid) + bp7.enc(val) for (rid, val) in tres)
    return out


def canonical_map(mapping):
    ''' CBOR map with keys in bytewise order of their encodings (deterministic encoding). '''
    items = sorted(((bp7.enc(k), bp7.enc(v)) for (k, v) in mapping.items()), key=lambda kv: kv[0])
    return bp7.head(5, len(items)) + b''.join(k + v for (k, v) in items)


def enc_param(pid, val):
    if pid == PARAM_AAD_SCOPE and isinstance(val, dict):
        return canonical_map(val)
    return bp7.enc(val)


def read_asb(data):
    ''' Parse block-type-specific data of a BIB/BCB.  :raise BadSecurityBlock: '''
    items = []
    off = 0
    try:
        while off < len(data):
            it = bp7.read_item(data, off)
            items.append(bp7.to_py(it))
            off = it.end
    except bp7.Malformed as err:
        raise BadSecurityBlock(str(err))
    if len(items) not in (5, 6):
        raise BadSecurityBlock('ASB has %d items' % len(items))
    targets, ctx_id, flags, source = items[0], items[1], items[2], items[3]
    if not (isinstance(targets, list) and targets and all(isinstance(t, int) and t >= 0 for t in targets)):
        raise BadSecurityBlock('targets')
    if len(set(targets)) != len(targets):
        raise BadSecurityBlock('duplicate targets')
    if not isinstance(ctx_id, int) or not isinstance(flags, int):
        raise BadSecurityBlock('context id / flags')
    has_params = bool(flags & 1)
    if has_params != (len(items) == 6):
        raise BadSecurityBlock('parameters flag does not match the structure')
    params = items[4] if has_params else []
    results = items[5] if has_params else items[4]
    try:
        src = bp7.eid_to_text(source)
    except bp7.Malformed as err:
        raise BadSecurityBlock(str(err))
    pdict = {}
    if not isinstance(params, list):
        raise BadSecurityBlock('parameters')
    for ent in params:
        if not (isinstance(ent, list) and len(ent) == 2 and isinstance(ent[0], int)):
            raise BadSecurityBlock('parameter entry')
        if ent[0] in pdict:
            raise BadSecurityBlock('duplicate parameter id')
        pdict[ent[0]] = ent[1]
    if not (isinstance(results, list) and len(results) == len(targets)):
        raise BadSecurityBlock('results do not match targets')
    rlist = []
    for tres in results:
        if not isinstance(tres, list):
            raise BadSecurityBlock('target results')
        ids = set()
        cur = []
        for ent in tres:
            if not (isinstance(ent, list) and len(ent) == 2 and isinstance(ent[0], int)):
                raise BadSecurityBlock('result entry')
            if ent[0] in ids:
                raise BadSecurityBlock('duplicate result id')
            ids.add(ent[0])
            cur.append((ent[0], ent[1]))
        rlist.append(cur)
    return {'targets': targets, 'ctx': ctx_id, 'source': src, 'source_raw': source, 'params': pdict, 'results': rlist}


# ------------------------------------------------------------------ external AAD
def _scope_order(scope):
    ''' Block references in deterministic (bytewise encoded key) order. '''
    return [k for (k, _v) in sorted(scope.items(), key=lambda kv: bp7.enc(kv[0]))]


def external_aad(bundle_octets, bun, sec_block, asb, target_block):
    ''' Everything bound into the MAC/AEAD besides the target data, per the COSE context. '''
    scope = asb['params'].get(PARAM_AAD_SCOPE, {0: META, -1: META, -2: META})
    if not isinstance(scope, dict):
        raise BadSecurityBlock('AAD scope is not a map')
    addl_protected = asb['params'].get(PARAM_ADDL_PROTECTED, b'')
    if not isinstance(addl_protected, bytes):
        raise BadSecurityBlock('additional protected is not a byte string')
    aad = bp7.enc(asb['source_raw']) + canonical_map(scope)
    by_num = {b['num']: b for b in bun['blocks']}
    for ref in _scope_order(scope):
        flags = scope[ref]
        if ref == 0:
            if flags & META:
                lo, hi = bun['primary']['span']
                aad += bundle_octets[lo:hi]
            continue
        if ref == -1:
            blk = target_block
        elif ref == -2:
            blk = sec_block
        else:
            blk = by_num.get(ref)
            if blk is None:
                raise BadSecurityBlock('AAD scope names a missing block')
        if flags & META:
            aad += bp7.enc(blk['type']) + bp7.enc(blk['num']) + bp7.enc(blk['flags'])
        if flags & BTSD:
            aad += bp7.enc(blk['data'])
    aad += bp7.enc(addl_protected)
    return aad


# ------------------------------------------------------------------ COSE_Mac0
def mac0_tag(key, alg, protected, ext_aad, payload):
    name, trunc = HMACS[alg]
    structure = bp7.enc(['MAC0', protected, ext_aad, payload])
    return hmac.new(key, structure, getattr(hashlib, name)).digest()[:trunc]


def mac0_message(key, alg, kid, ext_aad, payload):
    ''' Encoded untagged COSE_Mac0 with detached payload. '''
    protected = bp7.enc({1: alg})
    tag = mac0_tag(key, alg, protected, ext_aad, payload)
    return bp7.head(4, 4) + bp7.enc(protected) + bp7.enc({4: kid}) + bp7.enc(None) + bp7.enc(tag)


def verify_mac0(msg_octets, keys, ext_aad, payload):
    ''' :return: True / False; :raise BadSecurityBlock: if the message is not a COSE_Mac0 '''
    try:
        it = bp7.read_item(msg_octets, 0)
        msg = bp7.to_py(it)
    except bp7.Malformed as err:
        raise BadSecurityBlock(str(err))
    if it.end != len(msg_octets) or not (isinstance(msg, list) and len(msg) == 4):
        raise BadSecurityBlock('not a COSE_Mac0 array')
    protected, unprotected, _pay, tag = msg
    if not (isinstance(protected, bytes) and isinstance(unprotected, dict) and isinstance(tag, bytes)):
        raise BadSecurityBlock('COSE_Mac0 field types')
    try:
        phdr = bp7.to_py(bp7.read_item(protected, 0)) if protected else {}
    except bp7.Malformed as err:
        raise BadSecurityBlock(str(err))
    if not isinstance(phdr, dict):
        raise BadSecurityBlock('protected header')
    alg = phdr.get(1, unprotected.get(1))
    kid = unprotected.get(4, phdr.get(4))
    if alg not in HMACS or kid not in keys:
        return False
    if set(phdr) & set(unprotected):
        return False
    if 2 in phdr:      # critical headers we do not understand
        return False
    return hmac.compare_digest(mac0_tag(keys[kid], alg, protected, ext_aad, payload), tag)


# ------------------------------------------------------------------ COSE_Encrypt0 (AES-GCM)
def enc0_aad(protected, ext_aad):
    return bp7.enc(['Encrypt0', protected, ext_aad])


def enc0_message(key, alg, kid, iv, ext_aad, plaintext):
    ''' :return: (encoded untagged COSE_Encrypt0 with detached ciphertext, ciphertext) '''
    protected = bp7.enc({1: alg})
    ct = AESGCM(key).encrypt(iv, plaintext, enc0_aad(protected, ext_aad))
    msg = bp7.head(4, 3) + bp7.enc(protected) + bp7.enc({4: kid, 5: iv}) + bp7.enc(None)
    return msg, ct


def decrypt_enc0(msg_octets, keys, ext_aad, ciphertext):
    ''' :return: plaintext or None '''
    try:
        it = bp7.read_item(msg_octets, 0)
        msg = bp7.to_py(it)
    except bp7.Malformed as err:
        raise BadSecurityBlock(str(err))
    if it.end != len(msg_octets) or not (isinstance(msg, list) and len(msg) == 3):
        raise BadSecurityBlock('not a COSE_Encrypt0 array')
    protected, unprotected, _ct = msg
    if not (isinstance(protected, bytes) and isinstance(unprotected, dict)):
        raise BadSecurityBlock('COSE_Encrypt0 field types')
    try:
        phdr = bp7.to_py(bp7.read_item(protected, 0)) if protected else {}
    except bp7.Malformed as err:
        raise BadSecurityBlock(str(err))
    alg = phdr.get(1)
    kid = unprotected.get(4)
    iv = unprotected.get(5)
    if alg not in AESGCM_ALGS or kid not in keys or not isinstance(iv, bytes) or len(iv) != 12:
        return None
    try:
        return AESGCM(keys[kid]).decrypt(iv, ciphertext, enc0_aad(protected, ext_aad))
    except Exception:
        return None


# ------------------------------------------------------------------ whole-bundle verdicts
def verify_bundle(bundle_octets, keys):
    ''' Independent verdict on every BIB/BCB of a bundle that uses COSE_Mac0 / COSE_Encrypt0.
    :return: dict(verdict='ok'|'fail'|'none'|'unsupported', plaintext={target num: bytes}) '''
    try:
        bun = bp7.read_bundle(bundle_octets)
    except bp7.Malformed:
        return {'verdict': 'fail', 'plaintext': {}}
    sec_blocks = [b for b in bun['blocks'] if b['type'] in (11, 12)]
    if not sec_blocks:
        return {'verdict': 'none', 'plaintext': {}}
    by_num = {b['num']: b for b in bun['blocks']}
    plain = {}
    for sb in sec_blocks:
        try:
            asb = read_asb(sb['data'])
            if asb['ctx'] != CTX_COSE:
                return {'verdict': 'fail', 'plaintext': {}}
            for (tnum, tres) in zip(asb['targets'], asb['results']):
                tgt = bun['primary'] if tnum == 0 else by_num.get(tnum)
                if tgt is None or tnum == 0:
                    return {'verdict': 'fail', 'plaintext': {}}
                if len(tres) != 1:
                    return {'verdict': 'fail', 'plaintext': {}}
                (rid, rval) = tres[0]
                if not isinstance(rval, bytes):
                    return {'verdict': 'fail', 'plaintext': {}}
                aad = external_aad(bundle_octets, bun, sb, asb, tgt)
                if sb['type'] == 11 and rid == TAG_MAC0:
                    if not verify_mac0(rval, keys, aad, tgt['data']):
                        return {'verdict': 'fail', 'plaintext': {}}
                elif sb['type'] == 12 and rid == TAG_ENC0:
                    pt = decrypt_enc0(rval, keys, aad, tgt['data'])
                    if pt is None:
                        return {'verdict': 'fail', 'plaintext': {}}
                    plain[tnum] = pt
                else:
                    return {'verdict': 'unsupported', 'plaintext': {}}
        except BadSecurityBlock:
            return {'verdict': 'fail', 'plaintext': {}}
    return {'verdict': 'ok', 'plaintext': plain}

''' Common machinery of every check: run the TLC model configurations, produce real executions,
have TLC validate them, decide the verdict, write evidence and replay files.

Verdict rules (DESIGN section 5):
  * the only judge is TLC on recorded traces of the real code;
  * a rejected trace -> replay file + ``VIOLATION property=<id> replay=<path>`` + exit 1;
  * a trace accepted only through a known-finding excuse listed in known_findings.json ->
    ``KNOWN-FINDING: property=<id> <name> <what>`` + exit 0;
  * TLC finding a violation in the *intended design* model, or any tool failure -> exit 2.
'''
import json
import os
import sys
import time
import traceback

from harness import tracecheck

VERIF = tracecheck.VERIF
# the two overrides exist for runs against scratch trees (seeded changes), which must not replace the evidence
EVIDENCE = os.environ.get('VERIF_EVIDENCE_DIR') or os.path.join(VERIF, 'evidence')
REPLAY = os.environ.get('VERIF_REPLAY_DIR') or os.path.join(VERIF, 'replay')
KF_FILE = os.path.join(VERIF, 'known_findings.json')


def load_known(prop):
    ''' Known (unrepaired) findings of a property: name -> description. '''
    with open(KF_FILE) as fh:
        data = json.load(fh)
    out = {}
    for ent in data.get('findings', []):
        if ent.get('status') == 'known' and prop in ent.get('properties', []):
            out[ent['name']] = ent.get('what', '')
    return out


class ModelRun(object):
    ''' One TLC run on a model configuration.
    expect: 'ok' (intended design: no violation) or 'violation' (a deviation must be caught). '''

    def __init__(self, spec, cfg_text, name, expect='ok', simulate=None, workers=16, timeout=1800, extra_args=(),
                 note='', module_text=None):
        self.module_text = module_text
        self.spec = spec
        self.cfg_text = cfg_text
        self.name = name
        self.expect = expect
        self.simulate = simulate
        self.workers = workers
        self.timeout = timeout
        self.extra_args = extra_args
        self.note = note


class Check(object):
    ''' Subclasses define: prop, trace_spec, enforced, models(tier), executions(tier, seed). '''
    prop = None
    trace_spec = None
    enforced = None
    level = 'model_checking'
    assumptions = []
    extra_consts = None

    def models(self, tier):
        return []

    def executions(self, tier, seed):
        ''' :return: (traces, meta) where meta is a list of dicts (one per trace: how it was produced) '''
        raise NotImplementedError

    def rule(self):
        return ''

    def nontrivial(self, trace, meta):
        ''' A hashable key if the trace is non-trivial, else None. '''
        return json.dumps(meta, sort_keys=True)

    def sample(self, trace, meta):
        return {'meta': meta, 'events': len(trace)}


def run_check(check, tier, seed, replay=None):
    t0 = time.time()
    prop = check.prop
    os.makedirs(EVIDENCE, exist_ok=True)
    os.makedirs(REPLAY, exist_ok=True)
    known = load_known(prop)
    states = transitions = 0
    model_report = []
    # 1. model checking of the specification itself
    # (a replay re-validates one stored execution; the models are not what is being asked about)
    for mr in ([] if replay else check.models(tier)):
        res = tracecheck.model_check(mr.spec, mr.cfg_text, '%s-%s' % (prop, mr.name), workers=mr.workers,
                                     simulate=mr.simulate, timeout=mr.timeout, extra_args=mr.extra_args,
                                     module_text=mr.module_text)
        states += res['distinct']
        transitions += res['generated']
        entry = {'config': mr.name, 'spec': mr.spec, 'distinct_states': res['distinct'],
                 'states_generated': res['generated'], 'wall_s': round(res['wall_s'], 1), 'expect': mr.expect,
                 'violated': res['violated'], 'note': mr.note}
        model_report.append(entry)
        if mr.expect == 'ok' and not res['ok']:
            print('MACHINERY: TLC reports %s in the intended-design model %s/%s (specification error?)'
                  % (res['violated'] or 'failure', mr.spec, mr.name))
            print(res['out'][-2500:])
            return 2
        if mr.expect == 'violation' and res['violated'] is None:
            print('MACHINERY: deviation model %s/%s was expected to violate a property but TLC found nothing'
                  % (mr.spec, mr.name))
            return 2
    # 2. executions of the real code: one or more batches (trace spec, traces, metas)
    if replay:
        with open(replay) as fh:
            rep = json.load(fh)
        batches = [(rep.get('trace_spec', check.trace_spec), [rep['trace']], [rep.get('meta', {})])]
    else:
        got = check.executions(tier, seed)
        batches = got if isinstance(got, list) else [(check.trace_spec, got[0], got[1])]
    # 3. validation
    traces, metas = [], []
    violations = []
    kf_hits = {}
    rc = 0
    seen_clause_sets = set()
    for (bi, (tspec, btraces, bmetas)) in enumerate(batches):
        val = tracecheck.validate(tspec, btraces, check.enforced, known=set(known), name='%s-val%d' % (prop, bi),
                                  extra_consts=check.extra_consts)
        states += val['states']
        transitions += val['transitions']
        base = len(traces)
        traces.extend(btraces)
        metas.extend(bmetas)
        for (i, res) in enumerate(val['results']):
            if res['accepted']:
                for name in res['kf']:
                    kf_hits.setdefault(name, []).append(base + i)
                continue
            violations.append(base + i)
            key = (tspec,) + tuple(res['clauses'])
            if key in seen_clause_sets:
                continue
            path = os.path.join(REPLAY, '%s-%d.json' % (prop, len(seen_clause_sets)))
            seen_clause_sets.add(key)
            with open(path, 'w') as fh:
                json.dump({'property': prop, 'trace_spec': tspec, 'failed_clauses': res['clauses'],
                           'matched_lines': res['reached'], 'failing_event': res.get('failing_event'),
                           'meta': bmetas[i], 'trace': btraces[i]}, fh)
            print('VIOLATION property=%s replay=%s' % (prop, path))
            print('  clause(s): %s; %s line %d of %d; produced by %s'
                  % (', '.join(res['clauses']) or '?', tspec, res['reached'] + 1, res['length'],
                     json.dumps(bmetas[i])[:300]))
            rc = 1
    for name in sorted(kf_hits):
        print('KNOWN-FINDING: property=%s %s: %s (%d executions)' % (prop, name, known.get(name, ''), len(kf_hits[name])))
    # 4. evidence
    distinct = {}
    for (tr, me) in zip(traces, metas):
        key = check.nontrivial(tr, me)
        if key is not None:
            distinct[key] = True
    samples = [check.sample(traces[i], metas[i]) for i in range(0, len(traces), max(1, len(traces) // 3))][:3]
    evidence = {
        'property_id': prop,
        'tier': tier,
        'seed': seed,
        'level': check.level,
        'coverage': {
            'states': max(states, 1),
            'transitions': max(transitions, 1),
            'traces_validated_against_impl': len(traces),
            'evaluations': len(traces),
            'distinct_nontrivial': len(distinct),
            'rule': check.rule(),
            'samples': samples,
            'model_runs': model_report,
            'trace_events': sum(len(t) for t in traces),
            'traces_accepted': len(traces) - len(violations),
            'known_finding_hits': {k: len(v) for (k, v) in kf_hits.items()},
            'enforced_clause_tags': sorted(check.enforced),
            'exhaustive': False,
        },
        'assumptions': list(check.assumptions),
        'wall_s': round(time.time() - t0, 1),
        'violations': len(violations),
    }
    extra = getattr(check, 'extra_coverage', None)
    if extra:
        evidence['coverage'].update(extra)
    with open(os.path.join(EVIDENCE, '%s.json' % prop), 'w') as fh:
        json.dump(evidence, fh, indent=1, default=str)
    print('%s %s: %d model states, %d executions validated (%d events), %d violations, %.0fs'
          % (prop, tier, states, len(traces), evidence['coverage']['trace_events'], len(violations), time.time() - t0))
    return rc


def main(registry, argv):
    import argparse
    par = argparse.ArgumentParser()
    par.add_argument('prop')
    par.add_argument('--tier', default=os.environ.get('VERIF_TIER', 'quick'))
    par.add_argument('--replay', default=None)
    args = par.parse_args(argv)
    seed = int(os.environ.get('VERIF_SEED', '0') or 0)
    if args.prop not in registry:
        print('unknown property %s' % args.prop)
        return 2
    try:
        return run_check(registry[args.prop](), args.tier, seed, replay=args.replay)
    except tracecheck.MachineryError as err:
        print('MACHINERY: %s' % err)
        return 2
    except Exception:
        traceback.print_exc()
        print('MACHINERY: unexpected failure of the checking machinery')
        return 2

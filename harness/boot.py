''' Bootstrap: make the repository's working tree importable in this sandbox.

* ``harness/shims`` first (third-party packages that are absent: gi, dbus, crcmod, portion, ...)
* ``$VERIF_REPO_ROOT/src`` (default /repo/src) next, *ahead of site-packages*, because
  /venv contains an unrelated distribution that is also called ``bp``.
* oscrypto's libcrypto version regex rejects "OpenSSL 3.0.20" (two-digit patch level);
  it is widened for the duration of the import so that the real ``certvalidator`` and
  pycose's x509 extension load.  Nothing from the repository is patched.

Import this module before importing anything from the repository.
'''
import os
import re
import sys

HARNESS_DIR = os.path.dirname(os.path.abspath(__file__))
VERIF_DIR = os.path.dirname(HARNESS_DIR)
REPO_ROOT = os.environ.get('VERIF_REPO_ROOT', '/repo')
SHIMS = os.path.join(HARNESS_DIR, 'shims')
SRC = os.path.join(REPO_ROOT, 'src')

for p in (SRC, SHIMS):
    while p in sys.path:
        sys.path.remove(p)
sys.path.insert(0, SRC)
sys.path.insert(0, SHIMS)
if VERIF_DIR not in sys.path:
    sys.path.append(VERIF_DIR)

_done = {}


def import_oscrypto():
    ''' Import certvalidator/oscrypto with the version regex widened. '''
    if _done.get('oscrypto'):
        return
    orig = re.search

    def patched(pattern, string, flags=0):
        if isinstance(pattern, str) and pattern == '\\b(\\d\\.\\d\\.\\d[a-z]*)\\b':
            pattern = '\\b(\\d+\\.\\d+\\.\\d+[a-z]*)\\b'
        return orig(pattern, string, flags)

    re.search = patched
    try:
        import certvalidator  # noqa: F401
        import pycose.extensions.x509  # noqa: F401
    finally:
        re.search = orig
    _done['oscrypto'] = True


def quiet_logging():
    import logging
    logging.disable(logging.CRITICAL)
    try:
        from scapy.config import conf
        conf.verb = 0
    except Exception:
        pass

''' TLC configurations of the TCPCL session model (specs/TcpclSession.tla), generated as small
root modules so that the constants (functions over the two ends) can be varied per check. '''
from harness.runner import ModelRun

ALL_TAGS = '{"C01","C04","C07","C09","C18"}'


def session_model(name, lens, maxsend, mru, init, quanta, term, close, dev='{}', enforced=ALL_TAGS, pop='TRUE',
                  expect='ok', fair=False, props=(), timeout=1800, note='', seg_choice='{}', seg_floor=0):
    mod = '''---- MODULE %s ----
EXTENDS TcpclSession
McLens == %s
McMaxSend == %s
McSegMru == %s
McSegInit == %s
====''' % (name, lens, maxsend, mru, init)
    cfg = '''SPECIFICATION %s
CONSTANTS
  Lens <- McLens
  MaxSend <- McMaxSend
  SegMru <- McSegMru
  SegInit <- McSegInit
  Quanta = %s
  AllowTerm = %s
  AllowClose = %s
  AllowPop = %s
  Adv = {}
  AdvMoves = {}
  MaxAdv = 0
  SegChoice = %s
  SegFloor = %d
  Dev = %s
  Enforced = %s
  Known = {}
  Diag = FALSE
INVARIANT OK
INVARIANT QuiescentOK
%s
CHECK_DEADLOCK FALSE
''' % ('FairSpec' if fair else 'Spec', quanta, term, close, pop, seg_choice, seg_floor, dev, enforced,
       '\n'.join('PROPERTY %s' % p for p in props))
    return ModelRun(name, cfg, name, expect=expect, module_text=mod, timeout=timeout, note=note)


A1 = '[A |-> 1, P |-> 0]'
A2 = '[A |-> 2, P |-> 0]'
B11 = '[A |-> 1, P |-> 1]'
MRU = '[A |-> 1, P |-> 2]'
INI = '[A |-> 2, P |-> 2]'
BOTHQ = '{"one","all"}'
BOTH = '{"A","P"}'


def adaptive_models(dev_names=()):
    """ Adaptive segment sizing with two pipelined transfers A -> P (peer MRU 2, controller outputs 1..3). """
    a2 = '[A |-> 2, P |-> 0]'
    mru = '[A |-> 2, P |-> 2]'
    runs = [session_model('MC_adapt', '{3}', a2, mru, INI, '{"all"}', '{}', '{}', pop='FALSE',
                          seg_choice='{1, 2, 3}', seg_floor=1,
                          note='adaptive segment sizing: two 3-octet bundles pipelined ahead of their ACKs, any '
                               'controller output 1..3 at every ACK, clamped to [1, peer MRU 2]')]
    if 'ack_timing_keyed_by_length' in dev_names:
        runs.append(session_model('MC_adapt_dev_key', '{3}', a2, mru, INI, '{"all"}', '{}', '{}', pop='FALSE',
                                  seg_choice='{1, 2, 3}', seg_floor=1, dev='{"ack_timing_keyed_by_length"}',
                                  expect='violation',
                                  note='transmit times keyed by cumulative length alone must be caught'))
    if 'floor_beats_mru' in dev_names:
        runs.append(session_model('MC_adapt_dev_floor', '{3}', a2, mru, INI, '{"all"}', '{}', '{}', pop='FALSE',
                                  seg_choice='{1, 2, 3}', seg_floor=3, dev='{"floor_beats_mru"}', expect='violation',
                                  note='a lower clamp applied after the peer MRU must be caught'))
    return runs


def quick_models(dev_names=()):
    runs = [
        session_model('MC_q1', '{0,1,3}', A1, MRU, INI, BOTHQ, BOTH, '{}',
                      note='A queues 1 bundle of 0/1/3 octets; MRU 2 and 1; partial and full socket acceptance; '
                           'either user terminates at any moment; pops'),
        session_model('MC_q2', '{1}', B11, MRU, INI, '{"all"}', '{"A"}', '{}',
                      note='one bundle each way, A may terminate'),
        session_model('MC_q3', '{0,3}', A1, MRU, INI, BOTHQ, '{"A"}', BOTH,
                      note='close() by either user at any moment, terminate by A'),
    ]
    adaptive_devs = ('ack_timing_keyed_by_length', 'floor_beats_mru')
    if any(d in adaptive_devs for d in dev_names):
        runs += adaptive_models(dev_names)
    for dev in [d for d in dev_names if d not in adaptive_devs]:
        runs.append(session_model('MC_dev_' + dev, '{0,1,3}', A1, MRU, INI, BOTHQ, BOTH, '{}',
                                  dev='{"%s"}' % dev, expect='violation',
                                  note='the deviation %s of the original code must violate an invariant' % dev))
    return runs


def thorough_models(dev_names=()):
    runs = quick_models(dev_names)
    runs += [
        session_model('MC_t1', '{0,1,3}', A2, MRU, INI, BOTHQ, BOTH, '{}', timeout=9000,
                      note='A queues 2 bundles of 0/1/3 octets; terminate anywhere on either side'),
        session_model('MC_t2', '{0,3}', B11, MRU, INI, BOTHQ, '{"A"}', '{}', timeout=9000,
                      note='one bundle of 0/3 octets each way, partial socket acceptance, A terminates anywhere'),
        session_model('MC_live', '{0,3}', A1, MRU, INI, BOTHQ, BOTH, '{}', fair=True, dev='{"busy_wait_abstracted"}',
                      props=('TermLive', 'Terminates'), timeout=9000,
                      note='liveness under weak fairness (busy wait of the queue source abstracted): termination '
                           'always completes, the event loops always run out of work'),
        session_model('MC_live_dev', '{0,3}', A1, MRU, INI, BOTHQ, BOTH, '{}', fair=True, expect='violation',
                      dev='{"busy_wait_abstracted", "zero_length_stuck"}', props=('TermLive', 'Terminates'),
                      enforced='{}', timeout=9000,
                      note='a zero-length transfer that never leaves the queue must violate the liveness properties'),
    ]
    return runs


def adversary_model(name, maxadv, dev='{}', expect='ok', own=1, timeout=1800, note='', enforced='{"C17"}', only=None):
    ''' Victim P (real), adversary plays A: every sequence of at most ``maxadv`` messages of the catalogue,
    interleaved in every way with the victim's callbacks and with acknowledgements of its segments. '''
    mod = '''---- MODULE %s ----
EXTENDS TcpclSession
McLens == {3}
McMaxSend == [A |-> 0, P |-> %d]
McSegMru == [A |-> 2, P |-> 2]
McSegInit == [A |-> 2, P |-> 2]
U(t, size) == Base(t, size)
McMoves == {
  [MCh EXCEPT !.t = "CH"],
  [MCh EXCEPT !.magicok = FALSE],
  [Base("INIT", 31) EXCEPT !.mru = 2, !.mrucls = "u8", !.xmrucls = "u64", !.nid = "adv"],
  MSeg(7, 1, FALSE, FALSE, 0),
  MSeg(8, 1, TRUE, TRUE, 1),
  MSeg(9, 1, TRUE, FALSE, 2),
  MSeg(9, 1, FALSE, TRUE, 0),
  MAck(99, 1, 1),
  MAck(1, 3, 1),
  [Base("REFUSE", 10) EXCEPT !.id = 99, !.reason = 2],
  [Base("REFUSE", 10) EXCEPT !.id = 1, !.reason = 2],
  MTerm(FALSE, 0),
  MTerm(TRUE, 0),
  [Base("UNKNOWN", 4) EXCEPT !.typ = 9],
  Base("KA", 1)
}
====''' % (name, own)
    if only is not None:
        # a sub-catalogue (by message kind) for runs that enforce other properties than C17
        lines = mod.split('\n')
        first = lines.index('McMoves == {') + 1
        last = lines.index('}')
        kept = [ln.rstrip(',') for ln in lines[first:last] if any(k in ln for k in only)]
        mod = '\n'.join(lines[:first] + [',\n'.join(kept)] + lines[last:])
    cfg = '''SPECIFICATION Spec
CONSTANTS
  Lens <- McLens
  MaxSend <- McMaxSend
  SegMru <- McSegMru
  SegInit <- McSegInit
  Quanta = {"all"}
  AllowTerm = {}
  AllowClose = {}
  AllowPop = FALSE
  Adv = {"A"}
  AdvMoves <- McMoves
  MaxAdv = %d
  SegChoice = {}
  SegFloor = 0
  Dev = %s
  Enforced = %s
  Known = {}
  Diag = FALSE
INVARIANT OK
INVARIANT QuiescentOK
CHECK_DEADLOCK FALSE
''' % (maxadv, dev, enforced)
    return ModelRun(name, cfg, name, expect=expect, module_text=mod, timeout=timeout, note=note)

''' Checks C01 C04 C09 C18 (and the session part of C07/C14): two real TCPCL endpoints. '''
import random

import boot  # noqa: F401
from harness.runner import Check
from harness.checks import tcpcl_models
from harness.drivers import tcpcl_pair as tp

BASE_ASSUMPTIONS = [
    'GLib main loop, D-Bus and TCP sockets are replaced by models of their contracts (harness/shims, harness/sim)',
    'wire octets are attributed to messages by the independent RFC 9174 decoder harness/indep/tcpcl_codec.py',
    'TLC explores the model exhaustively only within the stated small constants; larger workloads are '
    'covered by simulation-generated and random schedules replayed into the real code',
]


class PairCheck(Check):
    trace_spec = 'TcpclTrace'
    assumptions = BASE_ASSUMPTIONS
    devs = ()
    # (tlc schedules, random schedules) per tier
    sizes = {'quick': (120, 160), 'thorough': (1500, 4000)}
    term_p = 0.5
    close_p = 0.1
    allow_close_tlc = ()
    profiles = ('tiny', 'tiny2', 'small', 'chunk')
    eagain = True

    def models(self, tier):
        if tier == 'thorough':
            return tcpcl_models.thorough_models(self.devs)
        return tcpcl_models.quick_models(self.devs)

    def rule(self):
        return ('schedules = behaviours of TcpclSession from tlc -simulate (callback choices) plus seeded random '
                'schedules (sends of 0..8 units x profile scale, partial/blocked socket writes, chunked reads, '
                'terminate/close at random points), each replayed into two real ContactHandler objects and run to '
                'quiescence; an execution is non-trivial if at least one transfer started; distinct = distinct '
                '(wire message sequence A, wire message sequence P) pairs')

    def nontrivial(self, trace, meta):
        if 'agent' in meta or meta.get('source') == 'scripted-peer':
            return repr(meta)
        wires = {'A': [], 'P': []}
        started = False
        for ev in trace:
            if ev['a'] == 'Wire':
                m = ev['m']
                wires[ev['e']].append((m['t'], m['flags'], m['id'], m['len']))
                if m['t'] == 'SEG':
                    started = True
        if not started:
            return None
        return repr((wires['A'], wires['P']))

    def sample(self, trace, meta):
        if 'agent' in meta or meta.get('source') == 'scripted-peer':
            return {'meta': meta, 'events': len(trace)}
        return {'meta': meta, 'events': len(trace), 'summary': tp.summarize(trace)[:1500]}

    def executions(self, tier, seed):
        ntlc, nrand = self.sizes['thorough' if tier == 'thorough' else 'quick']
        traces, metas = [], []
        applied = skipped = 0
        scheds, res = tp.tlc_schedules(ntlc, seed + 1, allow_close=self.allow_close_tlc,
                                       name='%s-sched' % self.prop)
        for (i, sched) in enumerate(scheds):
            prof = self.profiles[i % 3]
            tr, st = tp.run_schedule(sched, profile=prof, seed=seed * 7919 + i)
            traces.append(tr)
            metas.append({'source': 'tlc-simulate', 'n': i, 'profile': prof, 'steps': len(sched)})
            applied += st['applied']
            skipped += st['skipped']
        rnd = random.Random(seed * 104729 + 17)
        for i in range(nrand):
            sched = tp.random_schedule(rnd, term_p=self.term_p, close_p=self.close_p,
                                       steps=rnd.choice([30, 60, 90]))
            prof = self.profiles[i % len(self.profiles)]
            if tier == 'thorough' and i % 40 == 0:
                prof = 'large'
            tr, st = tp.run_schedule(sched, profile=prof, seed=seed * 15485863 + i, eagain=self.eagain)
            traces.append(tr)
            metas.append({'source': 'random', 'n': i, 'profile': prof, 'steps': len(sched)})
            applied += st['applied']
            skipped += st['skipped']
        # the connection is closed at every point of a short exchange (zero-length, one-octet, multi-segment bundles)
        cps = tp.close_point_schedules(tier)
        for (i, (sched, what)) in enumerate(cps):
            tr, st = tp.run_schedule(sched, profile=('tiny', 'tiny2')[i % 2], seed=seed * 31 + i)
            traces.append(tr)
            metas.append(dict(what, source='close-points'))
            applied += st['applied']
            skipped += st['skipped']
        self.extra_coverage = {'schedule_steps_applied': applied, 'schedule_steps_skipped': skipped,
                               'tlc_schedules': len(scheds), 'random_schedules': nrand, 'close_point_runs': len(cps)}
        return traces, metas


class C01(PairCheck):
    prop = 'C01'
    enforced = {'C01'}
    devs = ('zero_length_stuck', 'ack_timing_keyed_by_length')
    term_p = 0.25
    close_p = 0.05

    def models(self, tier):
        tm = tcpcl_models
        return PairCheck.models(self, tier) + [
            tm.session_model('MC_dev_close_success', '{0,3}', tm.A1, tm.MRU, tm.INI, tm.BOTHQ, '{"A"}', tm.BOTH,
                             dev='{"close_reports_zero_length_success"}', expect='violation',
                             note='close() by either user at any moment: reporting a zero-length transfer that still '
                                  'awaits its ACK as success must violate SuccessOnlyAfterReceiverHoldsBundle')]

    def executions(self, tier, seed):
        traces, metas = PairCheck.executions(self, tier, seed)
        # the same with adaptive segment sizing switched on and transfers pipelined ahead of their ACKs
        from harness.drivers import tcpcl_timers
        rnd = random.Random(seed * 37 + 1)
        n = 12 if tier != 'thorough' else 200
        for i in range(n):
            mru = rnd.choice([50, 500, 9000])
            nbytes = mru * rnd.choice([1, 2, 3]) + rnd.choice([0, 1, 20])
            nb = rnd.choice([2, 3, 4])
            traces.append(tcpcl_timers.run_adaptive(seed * 2000 + i, mru, 100000, nbytes, nbundles=nb,
                                                    sender_burst=rnd.choice([0, 6, 12, 30])))
            metas.append({'source': 'adaptive-pipelined', 'peer_mru': mru, 'bundles': nb, 'bytes': nbytes})
        self.extra_coverage['adaptive_pipelined_runs'] = n
        (ktr, kme) = tcpcl_timers.keepalive_mid_drain_executions(tier, seed)
        traces += ktr
        metas += kme
        self.extra_coverage['keepalive_mid_drain_runs'] = len(ktr)
        return traces, metas


class C04(PairCheck):
    prop = 'C04'
    enforced = {'C04'}
    devs = ('start_after_term', 'floor_beats_mru')
    term_p = 0.6

    def models(self, tier):
        from harness.checks import tcpcl_models
        # (no transfer messages: before the session those are answered with MSG_REJECT, which C17 requires and
        # which then precedes the endpoint's own SESS_INIT)
        only = ('"CH"]', '"INIT"', 'Base("KA"')
        return PairCheck.models(self, tier) + [
            tcpcl_models.adversary_model('MC_adv_c04', 4 if tier != 'thorough' else 5, enforced='{"C04"}', only=only,
                                         note='a peer that repeats its contact header / SESS_INIT or sends them late: '
                                              'what the endpoint writes stays one contact header, one SESS_INIT, then '
                                              'session messages'),
            tcpcl_models.adversary_model('MC_adv_c04_dev', 4, dev='{"second_init_accepted"}', enforced='{"C04"}',
                                         only=only, expect='violation',
                                         note='negotiating again on a second SESS_INIT (second own SESS_INIT on the '
                                              'wire) must be caught'),
        ]

    def executions(self, tier, seed):
        traces, metas = PairCheck.executions(self, tier, seed)
        # "no segment exceeds the peer's announced segment MRU" must also hold while the sender adapts its
        # segment size to ACK latency (off by default): virtual time passes between callbacks
        from harness.drivers import tcpcl_timers
        rnd = random.Random(seed * 31 + 4)
        for i in range(24 if tier != 'thorough' else 300):
            mru = rnd.choice([1, 7, 500, 4096, 9000, 10239, 10240, 10241, 20000, 10 ** 6])
            init = rnd.choice([100, 8192, 10240, 102400])
            nbytes = min(rnd.choice([1000, 60000, 250000]), mru * 120)
            traces.append(tcpcl_timers.run_adaptive(seed * 1000 + i, mru, init, nbytes))
            metas.append({'source': 'adaptive', 'peer_mru': mru, 'seg_init': init, 'bytes': nbytes})
        self.extra_coverage['adaptive_sizing_runs'] = 24 if tier != 'thorough' else 300
        # the order of messages on the wire must also hold when the peer is slow to negotiate (longer than the
        # keepalive interval or the idle time): nothing but the contact header precedes SESS_INIT
        (str_, sme) = tcpcl_timers.slow_negotiation_executions(tier, seed)
        traces += str_
        metas += sme
        self.extra_coverage['slow_negotiation_runs'] = len(str_)
        # a timer firing while a large message is only partly written: what it sends must not land inside it
        (ktr, kme) = tcpcl_timers.keepalive_mid_drain_executions(tier, seed)
        traces += ktr
        metas += kme
        self.extra_coverage['keepalive_mid_drain_runs'] = len(ktr)
        # one real endpoint against a scripted peer that says things out of place (a second contact header or
        # SESS_INIT among them): what the endpoint writes must stay a legal sequence whatever it hears
        from harness.drivers import tcpcl_adv
        atr, ame = tcpcl_adv.executions('quick', seed)
        step = 5 if tier != 'thorough' else 1
        # (only misbehaviour inside the session: before it, the answer C17 requires - MSG_REJECT, SESS_TERM -
        # necessarily precedes the endpoint's own SESS_INIT)
        keep = [i for i in range(len(atr)) if not ame[i]['pre_ch'] and not ame[i]['pre_init']
                and (i % step == 0 or {'init_again', 'ch_again'} & set(ame[i]['sess']))]
        traces += [atr[i] for i in keep]
        metas += [dict(ame[i], source='scripted-peer') for i in keep]
        self.extra_coverage['scripted_peer_traces'] = len(keep)
        return traces, metas


class C09(PairCheck):
    prop = 'C09'
    enforced = {'C09'}
    devs = ('start_after_term', 'close_before_peer_term', 'close_drops_socket_buffer', 'zero_length_stuck')
    term_p = 0.9
    close_p = 0.25
    allow_close_tlc = ()

    def models(self, tier):
        from harness.checks import tcpcl_agent
        return PairCheck.models(self, tier) + tcpcl_agent.agent_models(tier)

    def executions(self, tier, seed):
        from harness.checks import tcpcl_agent
        traces, metas = PairCheck.executions(self, tier, seed)
        batch = tcpcl_agent.agent_batch(tier, seed)
        self.extra_coverage['agent_lifecycle_traces'] = len(batch[1])
        # one real endpoint whose user terminates with a transfer awaiting its ACKs, against a scripted peer whose
        # last write holds the final ACK *and* one more message: the endpoint must still close
        from harness.drivers import tcpcl_adv
        atr, ame = tcpcl_adv.executions('quick', seed)
        benign = {'vterm_ack_ka', 'vterm_ack_reject', 'xfer_ok', 'ka'}
        keep = [i for i in range(len(atr)) if not ame[i]['pre_ch'] and not ame[i]['pre_init']
                and set(ame[i]['sess']) <= benign and set(ame[i]['sess']) & {'vterm_ack_ka', 'vterm_ack_reject'}]
        traces += [atr[i] for i in keep]
        metas += [dict(ame[i], source='scripted-peer') for i in keep]
        self.extra_coverage['scripted_peer_traces'] = len(keep)
        return [('TcpclTrace', traces, metas), batch]


class C18(PairCheck):
    prop = 'C18'
    enforced = {'C18'}
    devs = ()
    term_p = 0.5
    close_p = 0.15

    def models(self, tier):
        from harness.checks import tcpcl_agent
        return PairCheck.models(self, tier) + tcpcl_agent.agent_models(tier, devs=False)

    def executions(self, tier, seed):
        traces, metas = PairCheck.executions(self, tier, seed)
        # the UDPCL and BTP-U agents: every signal they emit against its declared signature
        from harness.drivers import udpcl_cases, btpu_cases
        utr, ume = udpcl_cases.executions('quick', seed)
        btr, bme = btpu_cases.executions('quick', seed)
        keep_u = [i for (i, t) in enumerate(utr) if any(ev['a'] == 'Sig' for ev in t)]
        keep_b = [i for (i, t) in enumerate(btr) if any(ev['a'] == 'Sig' for ev in t)]
        xt = [utr[i] for i in keep_u] + [btr[i] for i in keep_b]
        xm = [dict(ume[i], agent='udpcl') for i in keep_u] + [dict(bme[i], agent='btpu') for i in keep_b]
        self.extra_coverage['udpcl_btpu_signal_traces'] = len(xt)
        # one real endpoint against the scripted peer of C17 (refusals, out-of-place and early messages): the
        # queue / idle / signal views must stay consistent there too
        from harness.drivers import tcpcl_adv
        atr, ame = tcpcl_adv.executions('quick', seed)
        step = 3 if tier != 'thorough' else 1
        keep = [i for i in range(len(atr)) if i % step == 0 or 'refuse_sent_unacked' in ame[i]['sess']]
        traces += [atr[i] for i in keep]
        metas += [dict(ame[i], source='scripted-peer') for i in keep]
        self.extra_coverage['scripted_peer_traces'] = len(keep)
        # sessions secured with TLS (certificates with IP / DNS / node-ID names, matching or not): the session
        # parameters reported then carry the authenticated identities
        from harness.drivers import tcpcl_policy
        rows = [r for r in tcpcl_policy.table('quick', seed) if r['A']['canTls'] and r['P']['canTls'] and r['hsOk']]
        rnd2 = random.Random(seed * 11 + 3)
        rows = rnd2.sample(rows, min(len(rows), 50 if tier != 'thorough' else 400))
        ptr = [tcpcl_policy.run_case(r, seed=seed + i) for (i, r) in enumerate(rows)]
        traces += ptr
        metas += [{'source': 'scripted-peer', 'tls_policy_row': {k: r[k] for k in ('A', 'P', 'byName')}} for r in rows]
        self.extra_coverage['tls_session_traces'] = len(ptr)
        # the agent object: connection_opened / connection_closed, get_connections, connect / shutdown returns
        from harness.checks import tcpcl_agent
        batch = tcpcl_agent.agent_batch(tier, seed)
        self.extra_coverage['agent_lifecycle_traces'] = len(batch[1])
        return [('TcpclTrace', traces, metas), ('XferObs', xt, xm), batch]


REGISTRY = {'C01': C01, 'C04': C04, 'C09': C09, 'C18': C18}

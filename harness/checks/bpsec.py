''' Checks C03 (COSE integrity), C16 (COSE confidentiality), C12 (fail-closed delivery). '''
import boot  # noqa: F401
from harness.runner import Check, ModelRun
from harness.checks.bpnode import BP_ASSUMPTIONS, node_models
from harness.drivers import bpsec_cases

COVER_CFG = '''SPECIFICATION MSpec
CONSTANTS
  Dev = %s
  Enforced = {}
  Known = {}
  Diag = FALSE
INVARIANT VerifyIffUnaltered
CHECK_DEADLOCK FALSE
'''

SEC_ASSUMPTIONS = BP_ASSUMPTIONS + [
    'HMAC, AES-GCM, AES key wrap, ECDSA and X.509 path validation are trusted (cryptography, pycose, certvalidator); '
    'the specification states which octets an operation binds, not the arithmetic',
    'COSE_Mac with a wrapped key (MAC + recipient) cannot be exercised: the pycose in this sandbox lacks the API the '
    'repository uses for it (apply raises, verify fails closed)',
    'the independent implementation of the COSE context (harness/indep/bpsec_cose.py) covers COSE_Mac0 and '
    'COSE_Encrypt0 and is validated against the draft example bundle shipped with the repository',
]


def cover_models():
    runs = [ModelRun('BpSecCover', COVER_CFG % '{}', 'cover', workers=8,
                     note='every alteration class x every AAD scope (64) x key right/wrong: what the code binds vs. '
                          'the declarative Covered relation; and every pair of operations in one bundle (class x 2 '
                          'scopes x key, twice, acceptance on/off): delivered iff every operation verifies')]
    for dev in ('aad_without_primary', 'aad_without_target_meta', 'aad_without_protected', 'last_result_wins',
                'skips_after_accepted', 'trusts_attached_payload', 'decode_masks_unnamed_flags'):
        runs.append(ModelRun('BpSecCover', COVER_CFG % ('{"%s"}' % dev), 'cover-dev-' + dev, expect='violation',
                             workers=8, note='an AAD that omits this part must be caught'))
    return runs


class CoverCheck(Check):
    trace_spec = 'BpSecCover'
    extra_consts = {'Dev': '{}'}
    assumptions = SEC_ASSUMPTIONS
    kinds = ()

    def models(self, tier):
        return cover_models()

    def nontrivial(self, trace, meta):
        return repr(meta)

    def executions(self, tier, seed):
        events, _traces, metas = bpsec_cases.cover_cases(tier, seed, self.kinds)
        self.extra_coverage = {'cases': len(events) - 1,
                               'case_samples': [dict(m) for m in metas[:: max(1, len(metas) // 8)]][:8]}
        # one trace per case (so that a failing case is reported on its own) and one trace with all of them,
        # ending in the End event that requires both directions of the iff to have been exercised per kind
        traces = [[ev] for ev in events[:-1]] + [events]
        return [('BpSecCover', traces, list(metas) + [{'all_cases': len(events) - 1, 'kinds': list(self.kinds)}])]

    def sample(self, trace, meta):
        return {'meta': meta, 'events': len(trace), 'first_cases': trace[:3]}


class C03(CoverCheck):
    prop = 'C03'
    enforced = {'C03'}
    kinds = ('mac0', 'sign1')

    def rule(self):
        return ('cases = producer (real source agent with default scope; independent COSE-context implementation with 8 '
                'AAD scopes) x kind (COSE_Mac0, COSE_Sign1 with x5chain) x 22 alteration classes of the encoded bundle '
                'x receiver key right/wrong/absent x accept on/off; each realised on a real receiving agent; the '
                'verdict is compared with Covered(class, scope) and with the independent verifier; quick samples 420')


class C16(CoverCheck):
    prop = 'C16'
    enforced = {'C16'}
    kinds = ('enc0', 'encwrap')

    def rule(self):
        return ('as C03 for COSE_Encrypt0 (direct key) and COSE_Encrypt with AES key wrap, plaintext lengths 0, 1, 5, 15, '
                '16, 17, 1000; additionally the wire carries ciphertext, acceptance yields exactly the original '
                'plaintext, no plaintext on failure')


class C12(Check):
    prop = 'C12'
    enforced = {'C12'}
    trace_spec = 'BpTrace'
    assumptions = SEC_ASSUMPTIONS

    def models(self, tier):
        return node_models(tier, ('security_fail_open',))

    def rule(self):
        return ('24 security-block variants (none, good, bad tag, unknown context, missing target, duplicate parameter '
                '/ result ids, garbled COSE, garbled or truncated security block, two blocks with the bad one first / '
                'second, BCB good / altered ciphertext / unknown context / garbled, BCB over [BIB, payload] good / bad tag / other '
                'MAC key / altered ciphertext) x receiver key right/wrong/absent x '
                'accept on/off, plus the COSE_Mac0 / COSE_Encrypt0 coverage sweep labelled by the independent '
                'verifier; the probe application records what is consumed')

    def executions(self, tier, seed):
        return bpsec_cases.c12_executions(tier, seed)


REGISTRY = {'C03': C03, 'C16': C16, 'C12': C12}

''' Check C02: BPv7 encoding round-trips and is RFC 9171 well-formed. '''
import boot  # noqa: F401
from harness.runner import Check, ModelRun
from harness.drivers import bp7_cases

CFG = '''SPECIFICATION MSpec
CONSTANTS
  Dev = %s
  Enforced = {}
  Known = {}
  Diag = FALSE
INVARIANT WellFormed
CHECK_DEADLOCK FALSE
'''


class C02(Check):
    prop = 'C02'
    enforced = {'C02'}
    trace_spec = 'Bp7Structure'
    extra_consts = {'Dev': '{}'}
    assumptions = [
        'TLC decides the conditional-field structure for every shape; that a value of a class (e.g. 2^32) is encoded in '
        'the right number of octets is compared by the independent reader/writer on boundary representatives '
        '(0, 1, 23, 24, 255, 256, 65535, 65536, 2^32-1, 2^32, 2^64-1), not proved',
        'the independent reader/writer (harness/indep/bp7.py) is written from RFC 9171 / RFC 8949 and shares no code '
        'with the repository or with cbor2',
        'every bundle the BP agent hands to the convergence layer in the checks C05 C08 C10 C11 C12 C19 is also '
        'required to be well-formed (clause TransmittedBundleIsWellFormedRfc9171 there)',
    ]

    def models(self, tier):
        runs = [ModelRun('Bp7Structure', CFG % '{}', 'bp7', workers=8,
                         note='all 1872 shapes (fragment, primary CRC type, 1-3 blocks x CRC types, administrative '
                              'record with/without times and fragment fields): codec conditional fields vs. RFC grammar')]
        for dev in ('fragment_fields_unconditional', 'definite_outer_array', 'always_include_times'):
            runs.append(ModelRun('Bp7Structure', CFG % ('{"%s"}' % dev), 'bp7-dev-' + dev, expect='violation', workers=8,
                                 note='deviation %s must be caught' % dev))
        return runs

    def rule(self):
        return ('shapes x boundary values: each shape instantiated with random boundary representatives for every '
                'integer field, 7 endpoint-ID forms (dtn:none, dtn with/without authority, ipn incl. 2^32, non-ASCII), '
                'known and unknown extension blocks, status reports; encoded by the repository (raw and typed block '
                'classes) and read independently; written independently and decoded / re-encoded by the repository; '
                'quick: 400 of 1872 shapes once, thorough: all shapes x 6 value draws; distinct = distinct shapes')

    def nontrivial(self, trace, meta):
        return repr(meta['shape'])

    def executions(self, tier, seed):
        return bp7_cases.executions(tier, seed)


REGISTRY = {'C02': C02}

''' Check C14: negotiated parameters and timers. '''
import boot  # noqa: F401
from harness.runner import Check, ModelRun
from harness.checks.tcpcl import BASE_ASSUMPTIONS
from harness.drivers import tcpcl_timers


def timers_model(name, ka, idle, maxclock, sends, silent='{}', dev='{}', expect='ok', note='', userterms='{}'):
    mod = '''---- MODULE %s ----
EXTENDS TcpclTimers
McKa == %s
McIdle == %s
====''' % (name, ka, idle)
    cfg = '''SPECIFICATION Spec
CONSTANTS
  KaCfg <- McKa
  IdleCfg <- McIdle
  MaxClock = %d
  MaxSends = %d
  Silent = %s
  UserTerms = %s
  Dev = %s
  Enforced = {"C14"}
  Known = {}
  Diag = FALSE
INVARIANT OK
INVARIANT EndOK
CHECK_DEADLOCK FALSE
''' % (maxclock, sends, silent, userterms, dev)
    return ModelRun(name, cfg, name, expect=expect, module_text=mod, timeout=2400, note=note)


def fn(a, p):
    return '[A |-> %d, P |-> %d]' % (a, p)


class C14(Check):
    prop = 'C14'
    enforced = {'C14'}
    trace_spec = 'TcpclTrace'
    assumptions = BASE_ASSUMPTIONS + [
        'time is virtual: the clock advances only when no callback is runnable, to the next timer or scripted user '
        'action, so "sent whenever the interval elapses" is checked against exact deadlines',
        'the TLA+ timer model starts from an established session; negotiation itself is covered by TcpclSession']

    def models(self, tier):
        runs = []
        kas = [0, 1, 2]
        idles = [0, 2, 3]
        pairs = [(1, 2, 3, 0), (2, 2, 2, 3), (0, 1, 2, 2), (2, 0, 3, 3)]
        if tier == 'thorough':
            pairs = [(a, p, ia, ip) for a in kas for p in kas for ia in idles for ip in idles]
        for (a, p, ia, ip) in pairs:
            runs.append(timers_model('MC_tim_%d%d%d%d' % (a, p, ia, ip), fn(a, p), fn(ia, ip), 8, 2,
                                     note='keepalive %d/%d s, idle %d/%d s, two user transfers at any time, clock to 8 s'
                                          % (a, p, ia, ip)))
        runs.append(timers_model('MC_tim_silent', fn(0, 0), fn(2, 0), 8, 1, silent='{"P"}',
                                 note='peer never answers: idle timeout, then the terminating endpoint still closes'))
        runs.append(timers_model('MC_tim_term_silent', fn(1, 1), fn(3, 0), 9, 1, silent='{"P"}', userterms='{"A"}',
                                 note='keepalive 1 s < idle 3 s, the user terminates at any moment, the peer never '
                                      'answers: the endpoint keeps sending KEEPALIVEs and still closes'))
        runs.append(timers_model('MC_tim_term_pair', fn(1, 2), fn(2, 3), 8, 1, userterms='{"A", "P"}',
                                 note='both users may terminate at any moment, keepalive below the idle times'))
        runs.append(timers_model('MC_tim_dev_keepalive_postpones_closing', fn(1, 1), fn(3, 0), 9, 1, silent='{"P"}',
                                 userterms='{"A"}', dev='{"keepalive_postpones_closing"}', expect='violation',
                                 note='own KEEPALIVEs re-arming the idle timer of a terminating endpoint must be caught'))
        for (dev, args) in [('keepalive_max', (fn(1, 2), fn(3, 0), '{}')),
                            ('idle_while_terminating_raises', (fn(0, 0), fn(2, 0), '{"P"}')),
                            ('no_idle_reset_on_rx', (fn(2, 2), fn(2, 3), '{}'))]:
            runs.append(timers_model('MC_tim_dev_' + dev, args[0], args[1], 8, 2, silent=args[2],
                                     dev='{"%s"}' % dev, expect='violation', note='deviation %s must be caught' % dev))
        return runs

    def rule(self):
        return ('pairs of real endpoints over keepalive {0,1,2,5,30,65535}^2 x idle {0,3,10}^2 (quick: 70 sampled), '
                'user transfers placed just before / at / just after deadlines, terminate at random, run to a horizon '
                'of 5 intervals in virtual time; one endpoint against a silent peer (idle timeout, then closes); '
                'adaptive segment sizing runs with varying ACK latencies; distinct = distinct scenario descriptions')

    def executions(self, tier, seed):
        return tcpcl_timers.executions(tier, seed)


REGISTRY = {'C14': C14}

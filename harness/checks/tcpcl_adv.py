''' Check C17: out-of-place peer messages. '''
import boot  # noqa: F401
from harness.runner import Check
from harness.checks import tcpcl_models
from harness.checks.tcpcl import BASE_ASSUMPTIONS
from harness.drivers import tcpcl_adv


class C17(Check):
    prop = 'C17'
    enforced = {'C17'}
    trace_spec = 'TcpclTrace'
    assumptions = BASE_ASSUMPTIONS + [
        'the adversary is the harness itself, encoding with the independent RFC 9174 encoder and acknowledging '
        "the victim's segments; which message is out of place is decided by the observer spec from the victim's "
        'observable state, not by the harness']

    def models(self, tier):
        n = 4 if tier == 'thorough' else 3
        return [
            tcpcl_models.adversary_model('MC_adv', n, timeout=3000,
                                         note='every sequence of <= %d messages from a 15-message catalogue (legal and '
                                              'out-of-place) against a victim with one own 2-segment transfer' % n),
            tcpcl_models.adversary_model('MC_adv_dev', 3, dev='{"unknown_type_wedges"}', expect='violation',
                                         note='the code\'s treatment of an unknown message type must violate C17'),
        ]

    def rule(self):
        return ('scripts = (moves before the contact header, moves between contact header and SESS_INIT, moves in '
                'session) over 36 adversarial/legal moves; all single moves and all ordered pairs of the 25 in-session '
                'moves (thorough: all triples) for both victim roles, plus random scripts of 3..8 moves; the victim '
                'runs 1-2 own multi-segment transfers meanwhile; scripts naming the transfer ids of another connection of the '
                'same process run beside that connection (6 transfers under way, acknowledged at the end); '
                'distinct = distinct scripts')

    def nontrivial(self, trace, meta):
        if not (meta['pre_ch'] or meta['pre_init'] or meta['sess']):
            return None
        return repr(meta)

    def executions(self, tier, seed):
        return tcpcl_adv.executions(tier, seed)


REGISTRY = {'C17': C17}

''' Checks C08 C10 C11 C19: the BP agent's receive/forward/report logic. '''
import boot  # noqa: F401
from harness.runner import Check, ModelRun
from harness.drivers import bp_cases

BP_ASSUMPTIONS = [
    'GLib and D-Bus are replaced by contract models; the convergence layer is a fake adaptor recording octets',
    'everything about received and transmitted octets is read by the independent RFC 9171 reader '
    '(harness/indep/bp7.py) with a bitwise CRC implementation',
    'CRC results used *by the implementation* come from the crcmod shim (the real package is absent)',
    'routing patterns are plain prefixes; the observer evaluates first-match itself',
]

CFG = '''SPECIFICATION Spec
CONSTANTS
  Node <- NodeId
  Probe <- ProbeId
  Catalogue <- McCatalogue
  RxTable <- McRx
  TxTable <- McTx
  MaxRecv = %d
  Dev = %s
  Enforced = {"C08", "C10", "C11", "C12", "C19"}
  Known = {}
  Diag = FALSE
INVARIANT OK
INVARIANT QuiescentOK
CHECK_DEADLOCK FALSE
'''


def node_models(tier, devs):
    n = 4 if tier == 'thorough' else 3
    runs = [ModelRun('MC_BpNode', CFG % (n, '{}'), 'bpnode', timeout=3000,
                     note='every sequence of <= %d receptions from a 12-bundle catalogue of look-alikes (same id, one '
                          'identity component different, own source, admin endpoint, forward with block mixes, delete, '
                          'no route, bad CRC, bad security) interleaved with the deferred callbacks' % n)]
    for dev in devs:
        runs.append(ModelRun('MC_BpNode', CFG % (2, '{"%s"}' % dev), 'bpnode-dev-' + dev, expect='violation',
                             note='deviation %s must be caught' % dev))
    return runs


class BpCheck(Check):
    trace_spec = 'BpTrace'
    assumptions = BP_ASSUMPTIONS
    devs = ()
    gen = None
    what = ''

    def models(self, tier):
        return node_models(tier, self.devs)

    def rule(self):
        return self.what

    def executions(self, tier, seed):
        return self.gen(tier, seed)


class C10(BpCheck):
    prop = 'C10'
    enforced = {'C10'}
    devs = ('route_last_match', 'no_own_filter')
    gen = staticmethod(bp_cases.c10_executions)
    what = ('sequences of receptions over 14 look-alike bundles (all singles and ordered pairs, thorough all triples, '
            'random sequences of 5..30) x 6 routing tables (swapped order, overlapping prefixes, none matching); '
            'a repeat after 70 and 1500 (thorough up to 6000) other identities; distinct = distinct (table, sequence)')


def _c11_with_composition(tier, seed):
    traces, metas = bp_cases.c11_executions(tier, seed)
    from harness.drivers import comp_cases
    (xs, _us, _ys, cmetas) = comp_cases.executions(tier, seed)
    return [('BpTrace', traces, metas), ('BpTrace', xs, [dict(m, node='X') for m in cmetas])]


class C11(BpCheck):
    prop = 'C11'
    enforced = {'C11'}
    devs = ('stale_hop_count',)
    gen = staticmethod(_c11_with_composition)
    what = ('received bundles routed forward with previous-node x hop-count x age blocks in {0,1,2}^3, unknown block '
            '0/1, three numberings, CRC types, zero/non-zero creation time (quick: 220 sampled of 972 mixes), clock '
            'advanced before forwarding; 53 administrative records in transit (status item shapes, non-shortest / '
            'indefinite-length encodings, unknown record type, fragments); the transmitted octets are read independently')


class C08(BpCheck):
    prop = 'C08'
    enforced = {'C08'}
    devs = ('crc_not_checked',)
    gen = staticmethod(bp_cases.c08_executions)
    what = ('54 bundle shapes (primary/canonical CRC type assignments x extension sets x deliver/forward); all '
            'single-bit flips inside CRC-protected blocks for the first 4 (thorough 24) shapes, 12 (80) sampled flips '
            'and bursts up to the CRC width for the others; after the corrupted copies the good copy must still be '
            'processed; every transmitted bundle and report is CRC-checked independently')

    def nontrivial(self, trace, meta):
        return None if meta['mutation'] == 'none' else repr(meta)


class C19(BpCheck):
    prop = 'C19'
    enforced = {'C19'}
    devs = ('report_to_source',)
    gen = staticmethod(bp_cases.c19_executions)
    what = ('16 report-request flag sets x status-time x report-to {none, routable, unroutable, local} x outcomes '
            '{deliver, forward, forward without transmit route, delete, no route, administrative endpoint} (quick: 300 '
            'sampled of 768 rows), each bundle received twice; subjects with hop counts below, at and beyond the limit, '
            'clockless sources, fragmented subjects, CL services leaving / re-joining the bus')


REGISTRY = {'C08': C08, 'C10': C10, 'C11': C11, 'C19': C19}

''' Check C15: TLS and peer-authentication policy. '''
import boot  # noqa: F401
from harness.runner import Check, ModelRun
from harness.checks.tcpcl import BASE_ASSUMPTIONS
from harness.drivers import tcpcl_policy

CFG = '''SPECIFICATION Spec
CONSTANTS
  Dev = %s
INVARIANT PolicyHolds
CHECK_DEADLOCK FALSE
'''


class C15(Check):
    prop = 'C15'
    enforced = {'C15'}
    trace_spec = 'TcpclTrace'
    assumptions = BASE_ASSUMPTIONS + [
        'the TLS handshake is a model (succeeds or raises ssl.SSLError); the peer certificate is a real DER '
        'certificate parsed by the real cryptography/x509 code of the implementation',
        'certificate chain validation is outside the property and outside the fake TLS layer']

    def models(self, tier):
        return [
            ModelRun('TcpclPolicy', CFG % '{}', 'policy', note='the whole decision table (10368 rows): code-shaped '
                     'decision vs. declarative policy', workers=8),
            ModelRun('TcpclPolicy', CFG % '{"netname_absent_is_none"}', 'policy-dev1', expect='violation', workers=8,
                     note='original netname_absent logic (host authn satisfied by a non-matching DNS name)'),
            ModelRun('TcpclPolicy', CFG % '{"ignore_require_node"}', 'policy-dev2', expect='violation', workers=8,
                     note='ignoring require_node_authn must be caught'),
            ModelRun('TcpclPolicy', CFG % '{"flags_compared_whole"}', 'policy-dev3', expect='violation', workers=8,
                     note='comparing the whole contact-header flags octet with CAN_TLS (reserved bits set by the '
                          'peer) must be caught'),
        ]

    def rule(self):
        return ('rows of the decision table realised on two real endpoints: one end sweeps (canTls, require_tls, '
                'require_host_authn, require_node_authn, SAN classes ip/dns/node of the certificate it is shown, peer '
                'canTls, handshake ok/fail, connect by name/address) against a permissive peer (quick: 310 sampled '
                'rows per end, 200 of them from the TLS-established sub-table; thorough: all 10368 per end) plus '
                'random combinations of two strict ends; distinct = distinct rows')

    def executions(self, tier, seed):
        return tcpcl_policy.executions(tier, seed)


REGISTRY = {'C15': C15}

''' Checks C13 (UDPCL) and C20 (BTP-U): segmentation within the MTU and reassembly in any order. '''
import boot  # noqa: F401
from harness.runner import Check
from harness.checks.segsize import seg_models, reasm_models
from harness.drivers import udpcl_cases, btpu_cases

XFER_ASSUMPTIONS = [
    'GLib and D-Bus are replaced by contract models; the socket and time modules inside the agent module are replaced '
    'by stand-ins (fake datagram / raw sockets, virtual monotonic clock)',
    'datagrams and frames are decoded by independent readers (CBOR head parser; BTP-U message-set reader written from '
    'the message layout)',
    'DTLS, multicast, ECN feedback and PMTU probing of UDPCL are not exercised',
]


class C13(Check):
    prop = 'C13'
    enforced = {'C13', 'C18'}
    trace_spec = 'XferObs'
    assumptions = XFER_ASSUMPTIONS

    def models(self, tier):
        return seg_models('udpcl', tier, {8, 12}) + reasm_models(tier, 'FALSE', 'FALSE')

    def rule(self):
        return ('bundle lengths around 24 / 256 / 65536 x MTUs (envelope + slack around head-width boundaries, exact '
                'fit, one more, none) through the real queue and pacing path on the virtual clock; arrival in random '
                'permutations with repeats, drops, interleaving of two transfers and of a second peer re-using the '
                'transfer id; datagrams composed of several messages / padding; MTU below the envelope')

    def executions(self, tier, seed):
        traces, metas = udpcl_cases.executions(tier, seed)
        # the UDPCL hop of the BP / UDPCL composition: send requests come from a real BP agent through the real
        # bp.cla adaptor, the receiving adaptor pops what the agent announces
        from harness.drivers import comp_cases
        (_xs, us, _ys, cmetas) = comp_cases.executions(tier, seed)
        self.extra_coverage = {'composition_traces': len(us)}
        return [('XferObs', traces, metas), ('XferObs', us, [dict(m, hop='udpcl') for m in cmetas])]


class C20(Check):
    prop = 'C20'
    enforced = {'C20', 'C18'}
    trace_spec = 'XferObs'
    assumptions = XFER_ASSUMPTIONS + [
        'BTP-U is specified here by the message layout of btpu/messages.py (no independent protocol text available '
        'offline); the independent codec is independent code, not an independent reading of a standard']

    def models(self, tier):
        return seg_models('btpu', tier, {18}) + reasm_models(tier, 'TRUE', 'FALSE')

    def rule(self):
        return ('bundle lengths around the MTU-4 / MTU-18 boundaries x MTUs 19..9000; every permutation of the segments '
                'of 2-4-segment transfers, random permutations with repeats / drops / two interleaved transfers; frames '
                'of a second peer from the independent writer with hint lists of 0-3 hints (including a single end '
                'segment with index 0); several messages and padding per frame; message-set codec agreement over '
                '5 message types x 4 hint lists x 5 payload sizes in both directions')

    def executions(self, tier, seed):
        traces, metas = btpu_cases.executions(tier, seed)
        codec = btpu_cases.codec_trace(tier)
        return [('XferObs', traces, metas), ('CodecTrace', [codec], [{'codec': 'btpu', 'events': len(codec)}])]

    def nontrivial(self, trace, meta):
        return repr(meta)


REGISTRY = {'C13': C13, 'C20': C20}

''' The TCPCL agent object (connection life cycle): model runs and executions shared by C09 and C18. '''
import boot  # noqa: F401
from harness.runner import ModelRun
from harness.drivers import tcpcl_agent_cases

AGENT_CFG = '''SPECIFICATION Spec
CONSTANTS
  MaxConn = %d
  Dev = %s
  Enforced = {"C09", "C18"}
  Known = {}
  Diag = FALSE
INVARIANT OK
INVARIANT QuiescentOK
CHECK_DEADLOCK FALSE
'''


def agent_models(tier, devs=True):
    # (with transfers and single-session termination in the model, 3 connections are 2.8 million states; a fourth
    # does not fit the time a check may take)
    n = 3
    runs = [ModelRun('TcpclAgent', AGENT_CFG % (n, '{}'), 'agent', workers=8,
                     note='two agents, <= %d connections (queued / negotiating / established / terminating), one transfer '
                          'per direction and connection, terminate of single sessions, shutdown and stop by either side '
                          'at any moment, every interleaving' % n)]
    if tier == 'thorough':
        live = AGENT_CFG.replace('SPECIFICATION Spec', 'SPECIFICATION FairSpec').replace(
            'CHECK_DEADLOCK FALSE', 'PROPERTY EndLive\nPROPERTY PeerLive\nCHECK_DEADLOCK FALSE')
        runs.append(ModelRun('TcpclAgent', live % (2, '{}'), 'agent-live', workers=8, timeout=6000,
                             note='liveness under weak fairness: every shutdown / stop request ends with the agent '
                                  'stopped and no connection of it open on either side'))
    if devs:
        runs.append(ModelRun('TcpclAgent', AGENT_CFG % (3, '{"stop_skips_every_other"}'), 'agent-dev-stop',
                             expect='violation', workers=8,
                             note='stop() that leaves every second connection open must be caught'))
        runs.append(ModelRun('TcpclAgent', AGENT_CFG % (2, '{"shutdown_aborts_before_session"}'), 'agent-dev-shutdown',
                             expect='violation', workers=8,
                             note='shutdown() failing on a connection without a session must be caught'))
        runs.append(ModelRun('TcpclAgent', AGENT_CFG % (2, '{"shutdown_closes_terminating"}'), 'agent-dev-shutdown-term',
                             expect='violation', workers=8,
                             note='shutdown() closing a session that is already terminating (transfer in progress cut) '
                                  'must be caught'))
    return runs


def agent_batch(tier, seed):
    traces, metas = tcpcl_agent_cases.executions(tier, seed)
    return ('TcpclAgentTrace', traces, [dict(m, agent='tcpcl-agent') for m in metas])

''' Check C07: framing independent of TCP chunking + codec agreement with an independent codec. '''
import boot  # noqa: F401
from harness.runner import Check, ModelRun
from harness.drivers import tcpcl_rx, tcpcl_codec_cases
from harness.checks.tcpcl import BASE_ASSUMPTIONS

RX_CFG = '''SPECIFICATION Spec
CONSTANTS
  Catalogue <- McCatalogue
  MaxMsgs = %d
  Dev = %s
  Enforced = {"C07"}
  Known = {}
  Diag = FALSE
INVARIANT OK
INVARIANT FramingExact
CHECK_DEADLOCK FALSE
'''


class C07(Check):
    prop = 'C07'
    enforced = {'C07'}
    trace_spec = 'TcpclTrace'
    assumptions = BASE_ASSUMPTIONS + [
        'octet-level fidelity of field values is compared case by case on boundary representatives '
        '(CodecTrace); TLC decides framing for every cut of every stream of the small catalogue only']

    def models(self, tier):
        n = 4 if tier == 'thorough' else 3
        return [
            ModelRun('MC_TcpclRx', RX_CFG % (n, '{}'), 'rx', note='every stream of <= %d messages from a 5-message '
                     'catalogue x every way of cutting it into reads' % n, timeout=3000),
            ModelRun('MC_TcpclRx', RX_CFG % (2, '{"partial_contact_header"}'), 'rx-dev', expect='violation',
                     note='acting on a contact header one octet early must violate FramingExact'),
        ]

    def rule(self):
        return ('streams from the independent RFC 9174 encoder (15 shapes x both roles) fed to one real endpoint; '
                'all 2^(n-1) cuts for streams of n <= 11 (quick) / 14 (thorough) octets, boundary-directed cuts '
                '(+-2 around every message boundary, 1-octet drip, CHUNK_SIZE edges, random) for longer ones; plus '
                'one codec-agreement case per message kind x boundary values; distinct = distinct (stream, chunking)')

    def nontrivial(self, trace, meta):
        if meta.get('codec'):
            return 'codec'
        return repr((meta['victim'], meta['stream'], meta['chunks']))

    def sample(self, trace, meta):
        return {'meta': meta, 'events': len(trace)}

    def executions(self, tier, seed):
        traces, metas, nexh = tcpcl_rx.executions(tier, seed)
        codec_trace = tcpcl_codec_cases.trace(tier)
        self.extra_coverage = {'streams_cut_exhaustively': nexh, 'codec_cases': (len(codec_trace) - 1) // 3}
        # what two real endpoints write when timers, large messages and partial socket writes meet: every octet
        # written must still decode, message by message, with the independent decoder
        from harness.drivers import tcpcl_timers
        (ktr, kme) = tcpcl_timers.keepalive_mid_drain_executions(tier, seed)
        self.extra_coverage['keepalive_mid_drain_runs'] = len(ktr)
        traces += ktr
        metas += [dict(m, victim='both', stream='pair', chunks=repr(sorted(m.items()))) for m in kme]
        return [('TcpclTrace', traces, metas),
                ('CodecTrace', [codec_trace], [{'codec': 'tcpcl', 'cases': (len(codec_trace) - 1) // 3}])]


REGISTRY = {'C07': C07}

''' Checks C05 (BP fragmentation) and C06 (BP reassembly); C13/C20 reuse the same models. '''
import boot  # noqa: F401
from harness.runner import Check, ModelRun
from harness.drivers import bp_cases
from harness.checks.bpnode import BP_ASSUMPTIONS


def win(centre, width):
    return set(range(max(0, centre - width), centre + width + 1))


def setstr(vals):
    return '{' + ', '.join(str(v) for v in sorted(vals)) + '}'


def seg_model(name, inst, totals, slacks, fixed, dev='{}', maxpieces=6, expect='ok', note=''):
    cfg = '''SPECIFICATION Spec
CONSTANTS
  Inst = "%s"
  Totals = %s
  Slacks = %s
  Fixed = %s
  MaxPieces = %d
  Dev = %s
INVARIANT EachWithinMtu
INVARIANT EachNonEmpty
INVARIANT Contiguous
INVARIANT TilesWhenDone
INVARIANT NothingWhenImpossible
INVARIANT NeverOvershoots
CHECK_DEADLOCK FALSE
''' % (inst, setstr(totals), setstr(slacks), setstr(fixed), maxpieces, dev)
    return ModelRun('SegSizing', cfg, name, expect=expect, note=note, timeout=3000)


def seg_models(inst, tier, fixed):
    w = 12 if tier == 'thorough' else 4
    totals = {0, 1, 2, 5, 40} | win(24, w) | win(256, w) | win(65536, w)
    slacks = set(range(0, 15 if tier == 'quick' else 45)) | win(27, 3) | win(259, 3) | {1003, 65539, 65543, 70003}
    runs = [seg_model('seg-' + inst, inst, totals, slacks, fixed,
                      note='every (total, offset, MTU) with total and offset in windows +-%d around 24 / 256 / 65536 '
                           '(plus small values), MTU - envelope in -3..%d and around the head-width boundaries: '
                           'per-piece size lemma and whole cuts of up to 6 pieces' % (w, 11 if tier == 'quick' else 41))]
    dev = 'off_by_one' if inst == 'btpu' else 'no_worst_case_head'
    runs.append(seg_model('seg-%s-dev' % inst, inst, {40, 300, 600} | win(256, 2), set(range(0, 45)) | win(259, 3), fixed,
                          dev='{"%s"}' % dev, expect='violation', note='a budget rule without the worst-case head must be caught'))
    return runs


REASM_CFG = '''SPECIFICATION Spec
CONSTANTS
  Keys <- McKeys
  Total <- McTotal
  Pieces <- McPieces
  MaxArrivals = %d
  DropRepeats = %s
  DedupWhole = %s
  Dev = %s
INVARIANT ContentEqualsOriginal
INVARIANT NothingWhileMissing
INVARIANT AtMostOnce
INVARIANT DeliveredWhenAllArrived
CHECK_DEADLOCK FALSE
'''


def reasm_models(tier, drop_repeats, dedup_whole):
    n = 10 if tier == 'thorough' else 9
    runs = [ModelRun('MC_Reassembly', REASM_CFG % (n, drop_repeats, dedup_whole, '{}'), 'reasm',
                     note='two interleaved transfers (uneven cut with an overlapping extra piece; uniform cut), every '
                          'arrival order with repeats up to %d arrivals' % n, timeout=3000)]
    for dev in ('complete_by_length_sum', 'key_ignores_identity'):
        runs.append(ModelRun('MC_Reassembly', REASM_CFG % (7, drop_repeats, dedup_whole, '{"%s"}' % dev),
                             'reasm-dev-' + dev, expect='violation', note='deviation %s must be caught' % dev))
    return runs


class C05(Check):
    prop = 'C05'
    enforced = {'C05'}
    trace_spec = 'BpTrace'
    assumptions = BP_ASSUMPTIONS + [
        'the CBOR size model (CborSize) used by SegSizing is bound to the implementation by the clause '
        'EncodedSizeMatchesSizeModel on every transmitted fragment']

    def models(self, tier):
        return seg_models('bp', tier, {60, 95})

    def rule(self):
        return ('payload lengths in windows around 24 / 256 / 65536 (plus 0, 1, 5, 40, 1000) x 4 extension-block sets '
                '(with/without replicate flag) x CRC types x locally sent / received-and-forwarded, MTU = envelope + '
                'slack chosen around head-width boundaries; special cases fits / do-not-fragment / already a fragment '
                '/ impossible; quick: 150 sampled cases; distinct = distinct case descriptions')

    def executions(self, tier, seed):
        traces, metas = bp_cases.c05_executions(tier, seed)
        # the forwarding node of the BP / UDPCL composition: its fragments then travel through a real UDPCL agent
        from harness.drivers import comp_cases
        (xs, _us, _ys, cmetas) = comp_cases.executions(tier, seed)
        self.extra_coverage = {'composition_traces': len(xs)}
        return [('BpTrace', traces, metas), ('BpTrace', xs, [dict(m, node='X') for m in cmetas])]


class C06(Check):
    prop = 'C06'
    enforced = {'C06'}
    trace_spec = 'BpTrace'
    assumptions = BP_ASSUMPTIONS

    def models(self, tier):
        return reasm_models(tier, 'TRUE', 'TRUE')

    def rule(self):
        return ('1-2 bundles (differing in source or creation timestamp) cut uniformly / unevenly / with overlapping '
                'extra fragments, all fragments delivered in a random permutation with 0-2 duplicates, interleaved, '
                'in 20% of the runs one fragment never arrives; payload sizes 2..300; distinct = distinct arrival '
                'histories')

    def executions(self, tier, seed):
        traces, metas = bp_cases.c06_executions(tier, seed)
        # the receiving node of the BP / UDPCL composition: fragments made by another real agent, carried by
        # real UDPCL agents (segmented, re-ordered, repeated), re-assembled here
        from harness.drivers import comp_cases
        (_xs, _us, ys, cmetas) = comp_cases.executions(tier, seed)
        self.extra_coverage = {'composition_traces': len(ys)}
        return [('BpTrace', traces, metas), ('BpTrace', ys, [dict(m, node='Y') for m in cmetas])]


REGISTRY = {'C05': C05, 'C06': C06}

----------------------------- MODULE CodecTrace -----------------------------
(***************************************************************************)
(* Agreement between the implementation's codec and an independent one,    *)
(* case by case (second sentence of C07; message half of C20).             *)
(*                                                                         *)
(* A case is one message.  Three kinds of event per case:                  *)
(*   ImplEnc : the implementation encoded fields F to octets B;            *)
(*             the independent decoder read B as F2       (need F2 = F)    *)
(*   ImplDec : the independent encoder produced B from F;                  *)
(*             the implementation decoded B as F2         (need F2 = F)    *)
(*   ReEnc   : the implementation re-encoded what it decoded from B        *)
(*             (need identical octets, and declared = actual lengths)      *)
(* Field records are uniform per codec; TLC only compares them, the        *)
(* arithmetic of the encodings is outside what a TLA+ model decides (see   *)
(* DESIGN section 7).  The state remembers which message kinds have been   *)
(* exercised in which direction so that the final event can require that   *)
(* every kind of the catalogue was covered both ways.                      *)
(***************************************************************************)
EXTENDS Naturals, Sequences, FiniteSets, TLC, ClauseLib, Json, IOUtils, TLCExt

VARIABLES seenEnc, seenDec    \* message kinds exercised per direction

cvars == <<tid, l, kfUsed, seenEnc, seenDec>>

Traces == JsonDeserialize(IOEnv.TRACE_FILE)

Clauses(ev) ==
  CASE ev.a = "ImplEnc" ->
        { CK({ev.prop}, "ImplementationEncodingReadIndependentlyAsSameFields", ev.impl = ev.indep, ev.kf, ev.kf # ""),
          C({ev.prop}, "DeclaredLengthsEqualActualLengths", ev.lens_ok) }
    [] ev.a = "ImplDec" ->
        { CK({ev.prop}, "IndependentEncodingDecodedByImplementationAsSameFields", ev.impl = ev.indep, ev.kf, ev.kf # ""),
          C({ev.prop}, "ImplementationAcceptsValidEncoding", ev.decoded) }
    [] ev.a = "ReEnc" ->
        { CK({ev.prop}, "ReencodingReproducesTheOctets", ev.same, ev.kf, ev.kf # "") }
    [] ev.a = "End" ->
        { C({ev.prop}, "EveryMessageKindExercisedBothWays",
            \A k \in {ev.kinds[i] : i \in DOMAIN ev.kinds} : k \in seenEnc /\ k \in seenDec) }
    [] OTHER -> {}

TraceInit ==
  /\ tid \in 1..Len(Traces) /\ l = 1 /\ kfUsed = {}
  /\ seenEnc = {} /\ seenDec = {}
  /\ TLCSet(tid, 1)

TraceNext ==
  /\ l <= Len(Traces[tid])
  /\ LET ev == Traces[tid][l] IN
       /\ AllOK(Clauses(ev))
       /\ kfUsed' = kfUsed \cup KfIn(Clauses(ev))
       /\ seenEnc' = IF ev.a = "ImplEnc" THEN seenEnc \cup {ev.kind} ELSE seenEnc
       /\ seenDec' = IF ev.a = "ImplDec" THEN seenDec \cup {ev.kind} ELSE seenDec
  /\ l' = l + 1 /\ tid' = tid
  /\ TLCSet(tid, l + 1)
  /\ (l + 1 > Len(Traces[tid]) => PrintT(<<"DONE", tid, kfUsed'>>))

TraceSpec == TraceInit /\ [][TraceNext]_cvars
TraceReport == \A t \in 1..Len(Traces) : PrintT(<<"REACHED", t, TLCGet(t), Len(Traces[t])>>)
=============================================================================

---------------------------- MODULE TlsPolicyDecl ----------------------------
(***************************************************************************)
(* Property C15 stated declaratively over one endpoint's configuration and *)
(* what its peer presented.  Used by TcpclPolicy (decision table, TLC) and *)
(* by TcpclObs (recorded executions of the real code).  A case c is a      *)
(* record [canTls, req, reqHost, reqNode, passive, byName, peerCanTls,     *)
(* hsOk, ip, dns, node] with SAN classes "absent" | "match" | "mismatch".  *)
(***************************************************************************)
EXTENDS Naturals

(* ---------------- declarative: the property ---------------- *)
Attempt(c) == c.canTls /\ c.peerCanTls                      \* TLS attempted exactly when both offer it
Secure(c) == Attempt(c) /\ c.hsOk
TlsUseOK(c) == /\ (c.req = "yes" => Secure(c))              \* a node that requires TLS never proceeds in the clear
               /\ (c.req = "no" => ~Secure(c))              \* one that forbids it never proceeds secured
               /\ (Attempt(c) => c.hsOk)                    \* a failed handshake is not "proceeding"
\* does this endpoint know a DNS name for its peer?
HasDnsRef(c) == ~c.passive /\ c.byName
Contradiction(c) == c.ip = "mismatch" \/ (HasDnsRef(c) /\ c.dns = "mismatch") \/ c.node = "mismatch"
HostAuthenticated(c) == c.ip = "match" \/ (HasDnsRef(c) /\ c.dns = "match")
NodeAuthenticated(c) == c.node = "match"
AuthnOK(c) == /\ ~Contradiction(c)
              /\ (c.reqHost => HostAuthenticated(c))
              /\ (c.reqNode => NodeAuthenticated(c))
MayEstablish(c) == TlsUseOK(c) /\ (Secure(c) => AuthnOK(c))
MaySendInit(c) == TlsUseOK(c)

=============================================================================

--------------------------- MODULE MC_TcpclSched ---------------------------
(* Schedule generation: both ends queue up to 2 bundles of length 0..5, asymmetric MRUs,
   every user action enabled.  Used only with -simulate. *)
EXTENDS TcpclSched
McLens == {0, 1, 3, 5}
McMaxSend == [A |-> 2, P |-> 2]
McSegMru == [A |-> 1, P |-> 2]
McSegInit == [A |-> 2, P |-> 3]
McQuanta == {"one", "all"}
McAllowTerm == {"A", "P"}
McAllowClose == {"A", "P"}
=============================================================================

------------------------------ MODULE TcpclAgent ------------------------------
(***************************************************************************)
(* Implementation-shaped model of two tcpcl.agent.Agent objects: A         *)
(* connects, P listens.  A connection (index c) has a socket on each side  *)
(* (ids 2c-1 for A, 2c for P) and, once the side knows about it, a handler *)
(* (a ContactHandler) in that agent's ordered handler list.  The session   *)
(* state machine under a handler is abstracted to                          *)
(*    "neg"  contact / session negotiation not finished                    *)
(*    "est"  session established                                           *)
(*    "term" SESS_TERM sent, waiting for the exchange to finish            *)
(* (TcpclSession models that part).  One action = one callback or D-Bus    *)
(* call of the code; the observable sub-events are drained through the     *)
(* observer TcpclAgentObs, whose clauses also judge recorded executions.   *)
(*                                                                         *)
(* Deviations of the original code:                                        *)
(*   stop_skips_every_other  stop() closes handlers while iterating the    *)
(*        list they remove themselves from: every second one survives      *)
(*   shutdown_aborts_before_session  shutdown() calls terminate() on every *)
(*        handler; one without a session raises, the call fails and the    *)
(*        remaining handlers are never asked                               *)
(*   shutdown_closes_terminating  (a first repair of the previous one)     *)
(*        shutdown() treats "already terminating" like "no session yet"    *)
(*        and closes the connection: transfers in progress are cut         *)
(***************************************************************************)
EXTENDS TcpclAgentObs

CONSTANTS MaxConn, Dev

VARIABLES hdl,        \* [agent -> Seq([c, st])] the agent's handler list, in creation order
          acceptQ,    \* Seq(c) connections waiting in P's listen queue
          nConn,      \* connections created so far
          sockOpen,   \* [agent -> set of c] whose socket on that side is open
          inShut,     \* [agent -> BOOLEAN] _in_shutdown
          listening,  \* P's listening socket is open
          stopped,    \* [agent -> Nat] on-stop callbacks
          busy,       \* set of <<agent, c>>: a transfer of that agent on connection c is in progress
          xferd,      \* set of <<agent, c>> which have had their transfer (one each keeps the model finite)
          pend, allOk

mvars == <<hdl, acceptQ, nConn, sockOpen, inShut, listening, stopped, busy, xferd, pend, allOk>>
vars == <<avars, mvars>>

SockId(w, c) == IF w = "A" THEN 2 * c - 1 ELSE 2 * c
Path(c) == c            \* object paths are per agent and numbered in creation order: abstracted to c
Conns(w) == {hdl[w][i].c : i \in DOMAIN hdl[w]}
StateOf(w, c) == LET i == CHOOSE j \in DOMAIN hdl[w] : hdl[w][j].c = c IN hdl[w][i].st
Without(s, c) == SelectSeq(s, LAMBDA h : h.c # c)
SetSt(s, c, st) == [i \in DOMAIN s |-> IF s[i].c = c THEN [s[i] EXCEPT !.st = st] ELSE s[i]]

EvSockOpen(w, c) == [a |-> "SockOpen", who |-> w, sock |-> SockId(w, c)]
EvSockClosed(w, c) == [a |-> "SockClosed", who |-> w, sock |-> SockId(w, c)]
EvOpened(w, c) == [a |-> "Opened", who |-> w, path |-> Path(c)]
EvClosed(w, c) == [a |-> "Closed", who |-> w, path |-> Path(c)]
EvStopped(w) == [a |-> "Stopped", who |-> w]

\* Connection.close of handler c of agent w: socket closed, on_close -> _unbind_handler (signal, list removal)
CloseEvents(w, c) == <<EvSockClosed(w, c), EvClosed(w, c)>>
\* closing handlers cs of agent w cuts the transfers in progress there (nothing is announced for them)
Cut(w, cs) == busy \ {<<w, c>> : c \in cs}

Idle == pend = <<>>

\* A.connect(): socket pair, handler bound, hdl.start()
Connect ==
  \* (connections made while the listening agent is already shutting down are out of scope: the code keeps
  \* accepting them and nobody asks them to terminate)
  /\ Idle /\ nConn < MaxConn /\ listening /\ ~inShut["A"] /\ ~inShut["P"] /\ stopped["A"] = 0
  /\ LET c == nConn + 1 IN
     /\ nConn' = c
     /\ hdl' = [hdl EXCEPT !["A"] = Append(@, [c |-> c, st |-> "neg"])]
     /\ sockOpen' = [sockOpen EXCEPT !["A"] = @ \cup {c}, !["P"] = @ \cup {c}]
     /\ acceptQ' = Append(acceptQ, c)
     /\ pend' = <<EvSockOpen("A", c), EvSockOpen("P", c), EvOpened("A", c),
                  [a |-> "Connect", who |-> "A", ok |-> TRUE, path |-> Path(c)]>>
  /\ UNCHANGED <<inShut, listening, stopped, busy, xferd, allOk, avars>>

\* P._accept
Accept ==
  /\ Idle /\ acceptQ # <<>> /\ listening
  /\ LET c == Head(acceptQ) IN
     /\ acceptQ' = Tail(acceptQ)
     /\ hdl' = [hdl EXCEPT !["P"] = Append(@, [c |-> c, st |-> "neg"])]
     /\ pend' = <<EvOpened("P", c)>>
  /\ UNCHANGED <<nConn, sockOpen, inShut, listening, stopped, busy, xferd, allOk, avars>>

\* the contact header and SESS_INIT exchange of connection c completes on both sides
Establish(c) ==
  /\ Idle /\ c \in Conns("A") /\ c \in Conns("P")
  /\ StateOf("A", c) = "neg" /\ StateOf("P", c) = "neg"
  /\ hdl' = [w \in Agents |-> SetSt(hdl[w], c, "est")]
  /\ pend' = <<>>
  /\ UNCHANGED <<acceptQ, nConn, sockOpen, inShut, listening, stopped, busy, xferd, allOk, avars>>

\* a transfer of agent w on connection c: first segment sent (announced), later completely acknowledged
StartXfer(w, c) ==
  /\ Idle /\ c \in Conns(w) /\ StateOf(w, c) = "est" /\ <<w, c>> \notin xferd
  /\ busy' = busy \cup {<<w, c>>} /\ xferd' = xferd \cup {<<w, c>>}
  /\ pend' = <<[a |-> "XferStart", who |-> w, path |-> Path(c), id |-> 1]>>
  /\ UNCHANGED <<hdl, acceptQ, nConn, sockOpen, inShut, listening, stopped, allOk, avars>>
FinishXfer(w, c) ==
  /\ Idle /\ <<w, c>> \in busy /\ c \in Conns(w) /\ c \in Conns(Other(w))
  /\ c \in sockOpen[w] /\ c \in sockOpen[Other(w)]
  /\ busy' = busy \ {<<w, c>>}
  /\ pend' = <<[a |-> "XferFin", who |-> w, path |-> Path(c), id |-> 1, result |-> "success"]>>
  /\ UNCHANGED <<hdl, acceptQ, nConn, sockOpen, inShut, listening, stopped, xferd, allOk, avars>>
\* the user of one connection asks that session to terminate (ContactHandler.terminate)
TermOne(w, c) ==
  /\ Idle /\ c \in Conns(w) /\ StateOf(w, c) = "est" /\ ~shutReq[w] /\ ~stopReq[w]
  /\ hdl' = [hdl EXCEPT ![w] = SetSt(@, c, "term")]
  /\ pend' = <<[a |-> "HdlTerm", who |-> w, path |-> Path(c), ok |-> TRUE]>>
  /\ UNCHANGED <<acceptQ, nConn, sockOpen, inShut, listening, stopped, busy, xferd, allOk, avars>>

\* stop(): listening sockets closed, every handler closed, removed from the bus, on_stop
\* (_unbind_handler calls stop() again when the last handler goes while shutting down: same effect)
StopEvents(w, hs) ==
  LET RECURSIVE Ev(_, _)
      Ev(s, k) == IF s = <<>> THEN <<>>
                  ELSE IF "stop_skips_every_other" \in Dev /\ k % 2 = 0
                       THEN Ev(Tail(s), k + 1)
                       ELSE CloseEvents(w, Head(s).c) \o Ev(Tail(s), k + 1)
  IN Ev(hs, 1)
Survivors(hs) ==
  IF "stop_skips_every_other" \in Dev
  THEN LET RECURSIVE Sv(_, _)
           Sv(s, k) == IF s = <<>> THEN <<>> ELSE (IF k % 2 = 0 THEN <<Head(s)>> ELSE <<>>) \o Sv(Tail(s), k + 1)
       IN Sv(hs, 1)
  ELSE <<>>
\* closing the listening socket resets the connections still in its queue (kernel)
QueueDropEvents(w) ==
  LET RECURSIVE Ev(_)
      Ev(q) == IF q = <<>> THEN <<>> ELSE <<EvSockClosed("P", Head(q))>> \o Ev(Tail(q))
  IN IF w = "P" /\ listening THEN Ev(acceptQ) ELSE <<>>
QueuedAtP(w) == IF w = "P" /\ listening THEN {acceptQ[i] : i \in DOMAIN acceptQ} ELSE {}
DoStop(w, hs, more) ==
  \* the state after stop() on handler list hs, and its events followed by `more`
  /\ hdl' = [hdl EXCEPT ![w] = Survivors(hs)]
  /\ sockOpen' = [sockOpen EXCEPT ![w] = ({h.c : h \in {Survivors(hs)[i] : i \in DOMAIN Survivors(hs)}}
                                           \cup (@ \ {hs[i].c : i \in DOMAIN hs})) \ QueuedAtP(w)]
  /\ listening' = (IF w = "P" THEN FALSE ELSE listening)
  /\ acceptQ' = (IF w = "P" THEN <<>> ELSE acceptQ)
  /\ stopped' = [stopped EXCEPT ![w] = @ + 1]
  /\ busy' = Cut(w, {hs[i].c : i \in DOMAIN hs} \ {Survivors(hs)[i].c : i \in DOMAIN Survivors(hs)})
  /\ pend' = QueueDropEvents(w) \o StopEvents(w, hs) \o <<EvStopped(w)>> \o more

Stop(w) ==
  /\ Idle /\ ~stopReq[w]
  /\ DoStop(w, hdl[w], <<[a |-> "Stop", who |-> w, ok |-> TRUE]>>)
  /\ UNCHANGED <<nConn, inShut, xferd, allOk, avars>>

\* shutdown(): ask every session to terminate; a connection without a session is simply closed
Shutdown(w) ==
  \* (a connection accepted after the request would be a new session nobody asked to end: out of scope, the
  \* drivers let the agent take its listen queue first)
  /\ Idle /\ ~shutReq[w] /\ ~stopReq[w] /\ (w = "P" => acceptQ = <<>>)
  /\ inShut' = [inShut EXCEPT ![w] = TRUE]
  /\ IF hdl[w] = <<>>
     THEN /\ DoStop(w, <<>>, <<[a |-> "Shutdown", who |-> w, ok |-> TRUE, immediate |-> TRUE]>>)
     ELSE IF "shutdown_aborts_before_session" \in Dev /\ \E i \in DOMAIN hdl[w] : hdl[w][i].st = "neg"
     THEN \* handlers before the first one without a session were asked, then the call failed
          LET first == CHOOSE i \in DOMAIN hdl[w] : hdl[w][i].st = "neg" /\ \A j \in 1..(i - 1) : hdl[w][j].st # "neg"
          IN /\ hdl' = [hdl EXCEPT ![w] = [i \in DOMAIN @ |-> IF i < first /\ @[i].st = "est"
                                                                THEN [@[i] EXCEPT !.st = "term"] ELSE @[i]]]
             /\ pend' = <<[a |-> "Shutdown", who |-> w, ok |-> FALSE, immediate |-> FALSE]>>
             /\ UNCHANGED <<sockOpen, listening, stopped, busy>>
     ELSE LET \* connections closed on the spot: those without a session (and, deviation, those already terminating)
              Abrupt(h) == h.st = "neg" \/ ("shutdown_closes_terminating" \in Dev /\ h.st = "term")
              negs == SelectSeq(hdl[w], LAMBDA h : Abrupt(h))
              rest == SelectSeq(hdl[w], LAMBDA h : ~Abrupt(h))
              rest2 == [i \in DOMAIN rest |-> [rest[i] EXCEPT !.st = "term"]]
              closeEv == LET RECURSIVE Ev(_)
                             Ev(s) == IF s = <<>> THEN <<>> ELSE CloseEvents(w, Head(s).c) \o Ev(Tail(s))
                         IN Ev(negs)
          IN IF rest = <<>>
             THEN \* everything was closed on the spot: the last _unbind_handler stops the agent
                  /\ hdl' = [hdl EXCEPT ![w] = <<>>]
                  /\ sockOpen' = [sockOpen EXCEPT ![w] = @ \ {negs[i].c : i \in DOMAIN negs}]
                  /\ listening' = (IF w = "P" THEN FALSE ELSE listening)
                  /\ stopped' = [stopped EXCEPT ![w] = @ + 1]
                  /\ busy' = Cut(w, {negs[i].c : i \in DOMAIN negs})
                  /\ pend' = closeEv \o <<EvStopped(w), [a |-> "Shutdown", who |-> w, ok |-> TRUE, immediate |-> TRUE]>>
             ELSE /\ hdl' = [hdl EXCEPT ![w] = rest2]
                  /\ sockOpen' = [sockOpen EXCEPT ![w] = @ \ {negs[i].c : i \in DOMAIN negs}]
                  /\ busy' = Cut(w, {negs[i].c : i \in DOMAIN negs})
                  /\ pend' = closeEv \o <<[a |-> "Shutdown", who |-> w, ok |-> TRUE, immediate |-> FALSE]>>
                  /\ UNCHANGED <<listening, stopped>>
  /\ UNCHANGED <<acceptQ, nConn, xferd, allOk, avars>>

\* handler c of agent w closes (termination exchange finished, or the peer's socket is gone):
\* if it was the last one of an agent that is shutting down, the agent stops
HandlerCloses(w, c) ==
  LET left == Without(hdl[w], c) IN
  /\ busy' = Cut(w, {c})
  /\ IF left = <<>> /\ inShut[w]
     THEN /\ hdl' = [hdl EXCEPT ![w] = <<>>]
          /\ sockOpen' = [sockOpen EXCEPT ![w] = @ \ {c}]
          /\ listening' = (IF w = "P" THEN FALSE ELSE listening)
          /\ stopped' = [stopped EXCEPT ![w] = @ + 1]
          /\ pend' = CloseEvents(w, c) \o <<EvStopped(w)>>
     ELSE /\ hdl' = [hdl EXCEPT ![w] = left]
          /\ sockOpen' = [sockOpen EXCEPT ![w] = @ \ {c}]
          /\ pend' = CloseEvents(w, c)
          /\ UNCHANGED <<listening, stopped>>

\* the SESS_TERM exchange of a connection with a terminating side finishes on side w
TermDone(w, c) ==
  /\ Idle /\ c \in Conns(w)
  \* (this side closes once it has sent its own SESS_TERM and acted on the peer's)
  /\ StateOf(w, c) = "term"
  /\ c \in Conns(Other(w)) => StateOf(Other(w), c) = "term"
  \* (the exchange only finishes once the transfers in progress in both directions are complete; when the
  \* other side is gone this side closes through PeerGone)
  /\ <<w, c>> \notin busy /\ <<Other(w), c>> \notin busy
  /\ HandlerCloses(w, c)
  /\ UNCHANGED <<acceptQ, nConn, inShut, xferd, allOk, avars>>

\* side w acts on the SESS_TERM of the other side: it answers with its own and starts no new transfer
RecvTerm(w, c) ==
  /\ Idle /\ c \in Conns(w) /\ StateOf(w, c) = "est"
  /\ c \in Conns(Other(w)) /\ StateOf(Other(w), c) = "term"
  /\ hdl' = [hdl EXCEPT ![w] = SetSt(@, c, "term")]
  /\ pend' = <<>>
  /\ UNCHANGED <<acceptQ, nConn, sockOpen, inShut, listening, stopped, busy, xferd, allOk, avars>>

\* the peer's socket of connection c is closed: this side reads end-of-file and closes
PeerGone(w, c) ==
  /\ Idle /\ c \in Conns(w) /\ c \notin sockOpen[Other(w)]
  /\ HandlerCloses(w, c)
  /\ UNCHANGED <<acceptQ, nConn, inShut, xferd, allOk, avars>>

\* a connection still in P's listen queue when P stops listening: the socket is dropped by the kernel
DropQueued ==
  /\ Idle /\ acceptQ # <<>> /\ ~listening
  /\ LET c == Head(acceptQ) IN
     /\ acceptQ' = Tail(acceptQ)
     /\ sockOpen' = [sockOpen EXCEPT !["P"] = @ \ {c}]
     /\ pend' = <<EvSockClosed("P", c)>>
  /\ UNCHANGED <<hdl, nConn, inShut, listening, stopped, busy, xferd, allOk, avars>>

Query(w) ==
  /\ Idle
  /\ pend' = <<[a |-> "Conns", who |-> w, ok |-> TRUE,
                paths |-> LET RECURSIVE Sq(_)
                              Sq(S) == IF S = {} THEN <<>> ELSE LET x == CHOOSE y \in S : TRUE IN <<Path(x)>> \o Sq(S \ {x})
                          IN Sq(Conns(w))]>>
  /\ UNCHANGED <<hdl, acceptQ, nConn, sockOpen, inShut, listening, stopped, busy, xferd, allOk, avars>>

Drain ==
  /\ pend # <<>>
  /\ LET ev == Head(pend) IN
       /\ allOk' = (allOk /\ AllHold(Clauses(ev)))
       /\ Upd(ev)
       /\ tid' = tid /\ l' = l
  /\ pend' = Tail(pend)
  /\ UNCHANGED <<hdl, acceptQ, nConn, sockOpen, inShut, listening, stopped, busy, xferd>>

Loop == Accept \/ DropQueued \/ \E w \in Agents, c \in 1..MaxConn : Establish(c) \/ TermDone(w, c) \/ RecvTerm(w, c) \/ PeerGone(w, c) \/ FinishXfer(w, c)
User == Connect \/ \E w \in Agents : Stop(w) \/ Shutdown(w) \/ \E c \in 1..MaxConn : StartXfer(w, c) \/ TermOne(w, c)
Next == Drain \/ Loop \/ User

Init ==
  /\ tid = 0 /\ l = 0 /\ ObsInit
  /\ hdl = [w \in Agents |-> <<>>] /\ acceptQ = <<>> /\ nConn = 0
  /\ sockOpen = [w \in Agents |-> {}] /\ inShut = [w \in Agents |-> FALSE]
  /\ listening = TRUE /\ stopped = [w \in Agents |-> 0]
  /\ busy = {} /\ xferd = {}
  /\ pend = <<>> /\ allOk = TRUE

Spec == Init /\ [][Next]_vars
\* liveness (thorough tier): the loops' work is done under weak fairness (no callback re-arms itself here, so the
\* callback graph has no cycles and weak fairness is enough, cf. TcpclSession)
FairSpec == Spec /\ WF_vars(Drain) /\ WF_vars(Accept) /\ WF_vars(DropQueued)
                 /\ \A c \in 1..MaxConn : WF_vars(Establish(c))
                 /\ \A w \in Agents, d \in 1..MaxConn : WF_vars(TermDone(w, d)) /\ WF_vars(PeerGone(w, d)) /\ WF_vars(FinishXfer(w, d)) /\ WF_vars(RecvTerm(w, d))
\* a shutdown or stop request always ends with the agent stopped and none of its connections open anywhere
EndLive == \A w \in Agents : (shutReq[w] \/ stopReq[w]) ~> (stopped[w] >= 1 /\ hdl[w] = <<>> /\ sockOpen[w] = {})
PeerLive == \A w \in Agents : (shutReq[w] \/ stopReq[w]) ~> (\A c \in 1..MaxConn : c \in sockOpen[Other(w)] => c \in sockOpen[w])
OK == allOk
\* the event loops have nothing left to do (users might still call something)
Quiescent == pend = <<>> /\ ~ENABLED Loop
FinalEv(w) == [a |-> "Final", who |-> w,
               open_socks |-> LET RECURSIVE Sq(_)
                                  Sq(S) == IF S = {} THEN <<>> ELSE LET x == CHOOSE y \in S : TRUE IN <<SockId(w, x)>> \o Sq(S \ {x})
                              IN Sq(sockOpen[w]),
               handlers |-> Len(hdl[w]),
               paths |-> [i \in DOMAIN hdl[w] |-> Path(hdl[w][i].c)],
               listening |-> IF w = "P" /\ listening THEN <<4556>> ELSE <<>>,
               stopped |-> stopped[w]]
QuiescentOK == Quiescent => \A w \in Agents : AllHold(Clauses(FinalEv(w)))
=============================================================================

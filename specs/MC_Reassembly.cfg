SPECIFICATION Spec
CONSTANTS
  Keys <- McKeys
  Total <- McTotal
  Pieces <- McPieces
  MaxArrivals = 9
  DropRepeats = FALSE
  DedupWhole = FALSE
  Dev = {}
INVARIANT ContentEqualsOriginal
INVARIANT NothingWhileMissing
INVARIANT AtMostOnce
INVARIANT DeliveredWhenAllArrived
CHECK_DEADLOCK FALSE

------------------------------ MODULE Reassembly ------------------------------
(***************************************************************************)
(* Receiver-side reassembly of pieces into the original payload, as done   *)
(* by bp.app.fragment (C06), udpcl.agent (C13) and btpu.agent (C20): a     *)
(* table keyed by the transfer identity holds the octets received so far   *)
(* and the set of valid offsets; a piece may arrive in any order, any      *)
(* number of times, interleaved with pieces of other transfers; when the   *)
(* valid set equals the whole range the payload is delivered and the entry *)
(* removed.                                                                *)
(*                                                                         *)
(* Content is modelled by tokens: the octet at offset x of transfer k is   *)
(* <<k, x>>, so that mixing, truncation and duplication are visible.       *)
(***************************************************************************)
EXTENDS Naturals, Sequences, FiniteSets

CONSTANTS Keys,        \* transfer identities
          Total,       \* [Keys -> Nat]
          Pieces,      \* [Keys -> Seq([off, len])] the pieces in which transfer k was cut (may overlap)
          MaxArrivals,
          DropRepeats, \* BOOLEAN: an exact repeat of a piece is filtered before reassembly (BP agent: seen identities)
          DedupWhole,  \* BOOLEAN: a second complete copy is filtered after reassembly (BP agent: seen identity)
          Dev

VARIABLES table,      \* [key -> [valid, data]] for keys with an open entry
          delivered,  \* Seq([key, data]) in order of delivery
          seenPieces, seenWhole, arrivals, nlen

vars == <<table, delivered, seenPieces, seenWhole, arrivals, nlen>>

Range(off, len) == off..(off + len - 1)
Whole(k) == 0..(Total[k] - 1)
\* deviation: two transfers that differ only in a component the key ignores share an entry
KeyOf(k) == IF "key_ignores_identity" \in Dev THEN "same" ELSE k
Blank == <<"blank", 0>>

Arrive(k, i) ==
  LET p == Pieces[k][i]
      kk == KeyOf(k)
      repeat == <<k, i>> \in seenPieces
  IN
  /\ arrivals < MaxArrivals
  /\ arrivals' = arrivals + 1
  /\ seenPieces' = seenPieces \cup {<<k, i>>}
  /\ IF DropRepeats /\ repeat THEN UNCHANGED <<table, delivered, seenWhole, nlen>>
     ELSE
       LET old == IF kk \in DOMAIN table THEN table[kk]
                  ELSE [valid |-> {}, data |-> [x \in Whole(k) |-> Blank], total |-> Total[k]]
           new == [old EXCEPT !.valid = @ \cup Range(p.off, p.len),
                              !.data = [x \in DOMAIN old.data |-> IF x \in Range(p.off, p.len) THEN <<k, x>> ELSE old.data[x]]]
           lensum == (IF kk \in DOMAIN nlen THEN nlen[kk] ELSE 0) + p.len
           complete == IF "complete_by_length_sum" \in Dev THEN lensum >= new.total
                       ELSE new.valid = 0..(new.total - 1)
       IN IF complete
          THEN /\ table' = [x \in DOMAIN table \ {kk} |-> table[x]]
               /\ nlen' = [x \in DOMAIN nlen \ {kk} |-> nlen[x]]
               /\ IF DedupWhole /\ kk \in seenWhole
                  THEN UNCHANGED <<delivered, seenWhole>>
                  ELSE /\ delivered' = Append(delivered, [key |-> kk, data |-> new.data])
                       /\ seenWhole' = seenWhole \cup {kk}
          ELSE /\ table' = [x \in DOMAIN table \cup {kk} |-> IF x = kk THEN new ELSE table[x]]
               /\ nlen' = [x \in DOMAIN nlen \cup {kk} |-> IF x = kk THEN lensum ELSE nlen[x]]
               /\ UNCHANGED <<delivered, seenWhole>>

Next == \E k \in Keys : \E i \in DOMAIN Pieces[k] : Arrive(k, i)

Init == table = <<>> /\ delivered = <<>> /\ seenPieces = {} /\ seenWhole = {} /\ arrivals = 0 /\ nlen = <<>>
Spec == Init /\ [][Next]_vars

\* every delivered payload is exactly the original of one transfer: complete, unmixed, right length
ContentEqualsOriginal ==
  \A j \in DOMAIN delivered :
     \E k \in Keys : /\ DOMAIN delivered[j].data = Whole(k)
                     /\ \A x \in Whole(k) : delivered[j].data[x] = <<k, x>>
\* nothing is delivered while an octet is missing: a delivery of k implies all of k's range has arrived
NothingWhileMissing ==
  \A j \in DOMAIN delivered :
     \E k \in Keys : KeyOf(k) = delivered[j].key /\
        Whole(k) \subseteq UNION {Range(Pieces[k][i].off, Pieces[k][i].len) : i \in {n \in DOMAIN Pieces[k] : <<k, n>> \in seenPieces}}
\* at most one delivery per transfer when whole copies are de-duplicated
AtMostOnce == DedupWhole => \A i, j \in DOMAIN delivered : delivered[i].key = delivered[j].key => i = j
\* once every piece of k has arrived (at least once), k has been delivered
DeliveredWhenAllArrived ==
  \A k \in Keys : (\A i \in DOMAIN Pieces[k] : <<k, i>> \in seenPieces) => \E j \in DOMAIN delivered : delivered[j].key = KeyOf(k)
=============================================================================

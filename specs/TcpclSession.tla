---------------------------- MODULE TcpclSession ----------------------------
(***************************************************************************)
(* Implementation-shaped model of two tcpcl.session.ContactHandler objects *)
(* ("A" active, "P" passive) over one TCP connection.                      *)
(*                                                                         *)
(* One action per GLib callback / D-Bus call of the code, named after it:  *)
(*   Start, UserSend, UserTerminate, UserClose, UserPop, ProcessQueue      *)
(*   (_process_queue), TxPump (_avail_tx_* -> _tx_proxy), NetRecv          *)
(*   (_avail_rx_* -> _rx_proxy -> recv_raw -> recv_message), PeerEof.      *)
(* Messages are atomic on the wire here (octet-level chunking is the       *)
(* subject of TcpclRx); buffering is two-layer as in the code: buf is the  *)
(* Messenger's message buffer, cbuf the Connection's socket buffer.        *)
(*                                                                         *)
(* Every action produces the list of *observable* sub-events the code      *)
(* would produce inside that callback (pend); they are drained one per     *)
(* step through the observer TcpclObs (same Clauses / Upd as used for      *)
(* recorded traces), with priority over any other action, so a callback    *)
(* is atomic.  allOk accumulates the enforced clauses; invariant OK.          *)
(*                                                                         *)
(* Known deviations of the code from the intended design are the named     *)
(* alternatives guarded by the constant Dev.                               *)
(***************************************************************************)
EXTENDS TcpclObs

CONSTANTS Lens,      \* bundle lengths a user may queue
          MaxSend,   \* [Ends -> Nat] number of bundles each user queues at most
          SegMru,    \* [Ends -> Nat] announced segment MRU
          SegInit,   \* [Ends -> Nat] configured initial TX segment size
          Quanta,    \* subset of {"one", "all"}: how many buffered messages the socket accepts per pump
          AllowTerm, \* set of ends whose user may call terminate()
          AllowClose,\* set of ends whose user may call close()
          AllowPop,  \* BOOLEAN: users pop received bundles
          Dev,       \* set of deviation names enabled
          Adv,       \* set of ends played by an adversary instead of the implementation ({} normally)
          AdvMoves,  \* set of message records the adversary may put on its wire
          MaxAdv,    \* number of adversarial messages
          SegChoice, \* outputs the segment-size controller may produce ({} = adaptation switched off)
          SegFloor   \* the controller's lower clamp (_send_segment_size_min)

VARIABLES ph,        \* [Ends -> [open, started, inConn, inSess, inTerm, gotTerm]]
          txQ,       \* [Ends -> Seq([id, len])]   _tx_pend_start
          txCur,     \* [Ends -> [id, len, sent]]  _tx_tmp / _tx_length  (id = NONE: none)
          txAck,     \* [Ends -> SUBSET Nat]       _tx_pend_ack
          txMap,     \* [Ends -> SUBSET Nat]       _tx_map keys
          nextId, nSent,
          rxCur,     \* [Ends -> [id, got]]        _rx_tmp
          rxMap,     \* [Ends -> SUBSET Nat]       _rx_map keys
          buf, cbuf, \* [Ends -> Seq(msg)]         message-level / connection-level TX buffers
          segSize,   \* [Ends -> Nat]              _send_segment_size
          txTimes,   \* [Ends -> SUBSET (Nat \X Nat)] keys of _segment_tx_times (only with adaptation on)
          pq, txp,   \* [Ends -> BOOLEAN]          pending _process_queue / TX pump sources
          cw,        \* [Ends -> BOOLEAN]          close wanted once the socket buffer has drained (intended design)
          nDeliv,    \* [Ends -> Nat] messages of the peer's wire read by e
          nAdv, advAcked, rxStuck,  \* adversary budget used / victim segments it has acknowledged / wedged receiver
          pend,      \* Seq(event): observable sub-events of the callback in progress
          allOk      \* every enforced clause held so far

mvars == <<ph, txQ, txCur, txAck, txMap, nextId, nSent, rxCur, rxMap, buf, cbuf, segSize, txTimes, pq, txp, cw, nDeliv, nAdv, advAcked, rxStuck, pend, allOk>>
vars == <<ovars, mvars>>

----------------------------------------------------------------------------
(* messages: the same uniform record the trace projection produces *)
Base(t, size) == [t |-> t, flags |-> 0, id |-> 0, len |-> 0, reason |-> 0, ka |-> 0, mru |-> 0, mrucls |-> "na",
                  xmrucls |-> "na", total |-> NONE, nid |-> "", size |-> size, rej |-> 0, ver |-> 0,
                  magicok |-> TRUE, nexts |-> 0, typ |-> 0, tok |-> NONE]
MCh == [Base("CH", 6) EXCEPT !.ver = 4]
MInit(e) == [Base("INIT", 31) EXCEPT !.mru = SegMru[e], !.mrucls = "u8", !.xmrucls = "u64", !.nid = e]
MSeg(id, len, start, end, total) ==
  [Base("SEG", 18 + len + (IF start THEN 17 ELSE 0)) EXCEPT
     !.flags = (IF start THEN 2 ELSE 0) + (IF end THEN 1 ELSE 0), !.id = id, !.len = len,
     !.total = (IF start THEN total ELSE NONE), !.nexts = (IF start THEN 1 ELSE 0)]
MAck(id, len, flags) == [Base("ACK", 18) EXCEPT !.flags = flags, !.id = id, !.len = len]
MTerm(reply, reason) == [Base("TERM", 3) EXCEPT !.flags = (IF reply THEN 1 ELSE 0), !.reason = reason]
MReject(typ, reason) == [Base("REJECT", 3) EXCEPT !.rej = typ, !.reason = reason]

Min(a, b) == IF a <= b THEN a ELSE b

\* Adaptive segment sizing (modulate_target_ack_time): the transmit time of every segment is remembered under a
\* key and looked up when its ACK arrives; the controller output c is clamped to [SegFloor, peer segment MRU],
\* the MRU last.  Deviations: the key is the cumulative length alone (it repeats between pipelined transfers: the
\* later ACK finds nothing and the callback fails), and the floor applied after the MRU.
Adapting(e) == SegChoice # {} /\ e \notin Adv
TimeKey(id, len) == IF "ack_timing_keyed_by_length" \in Dev THEN <<0, len>> ELSE <<id, len>>
Clamp(c, mru) == IF "floor_beats_mru" \in Dev THEN Max(Min(c, mru), SegFloor) ELSE Min(Max(c, SegFloor), mru)
EvEscape(e) == [a |-> "Escape", e |-> e, n |-> "rx", i |-> [exc |-> "KeyError", user |-> FALSE, kf |-> "escape_rx_KeyError"], t |-> 0]
NoCur == [id |-> NONE, len |-> 0, sent |-> 0]
NoRx == [id |-> NONE, got |-> 0]
SetToSortedSeq(S) == \* ids are small naturals: order them
  LET RECURSIVE F(_)
      F(T) == IF T = {} THEN <<>> ELSE LET x == CHOOSE y \in T : \A z \in T : y <= z IN <<x>> \o F(T \ {x})
  IN F(S)

SetToSortedSeqS(S) == IF S = {"A", "P"} THEN <<"A", "P">> ELSE IF S = {"A"} THEN <<"A">> ELSE IF S = {"P"} THEN <<"P">> ELSE <<>>

(* sub-event constructors *)
NoSig == [sigt |-> <<>>, tags |-> <<>>, nargs |-> 3]
EvWire(e, m) == [a |-> "Wire", e |-> e, n |-> m.t, m |-> m, t |-> 0]
EvTx(e, k) == [a |-> "Tx", e |-> e, n |-> "", i |-> [k |-> k], t |-> 0]
EvRx(e, k) == [a |-> "Rx", e |-> e, n |-> "", i |-> [k |-> k], t |-> 0]
EvHandle(e, m, idx, cum) == [a |-> "Handle", e |-> e, n |-> m.t, m |-> m, i |-> [idx |-> idx, cum |-> cum], t |-> 0]
EvSig(e, name, bid, len, result) ==
  [a |-> "Sig", e |-> e, n |-> name, i |-> NoSig, vals |-> [bid |-> bid, len |-> len, result |-> result, state |-> ""], t |-> 0]
EvUserSend(e, id, len) == [a |-> "UserSend", e |-> e, n |-> "", i |-> [id |-> id, len |-> len], t |-> 0]
EvUserTerm(e) == [a |-> "UserTerm", e |-> e, n |-> "", i |-> [ok |-> TRUE], t |-> 0]
EvUserClose(e) == [a |-> "UserClose", e |-> e, n |-> "", t |-> 0]
EvUserPop(e, id) == [a |-> "UserPop", e |-> e, n |-> "", i |-> [id |-> id, len |-> 0, same |-> TRUE, runs |-> <<>>], t |-> 0]
EvClosed(e) == [a |-> "Closed", e |-> e, n |-> "", t |-> 0]

----------------------------------------------------------------------------
(* The per-end part of the model state as one record, so that a callback can be written
   as a composition of small functions, the way the code composes method calls. *)
EndState(e) == [open |-> ph[e].open, started |-> ph[e].started, inConn |-> ph[e].inConn, inSess |-> ph[e].inSess,
                inTerm |-> ph[e].inTerm, gotTerm |-> ph[e].gotTerm, txQ |-> txQ[e], txCur |-> txCur[e], txAck |-> txAck[e], txMap |-> txMap[e],
                nextId |-> nextId[e], nSent |-> nSent[e], rxCur |-> rxCur[e], rxMap |-> rxMap[e], buf |-> buf[e],
                cbuf |-> cbuf[e], segSize |-> segSize[e], txTimes |-> txTimes[e], pq |-> pq[e], txp |-> txp[e], cw |-> cw[e], evs |-> <<>>]

\* send_message: encode into the message buffer and make sure the pump runs
Enc(s, m) == [s EXCEPT !.buf = Append(@, m), !.txp = TRUE]
Ev(s, ev) == [s EXCEPT !.evs = Append(@, ev)]

\* ContactHandler.is_sess_idle with an empty receive buffer (messages are atomic here)
SessIdle(s) == s.buf = <<>> /\ s.rxCur.id = NONE /\ s.txCur.id = NONE /\ s.txQ = <<>> /\ s.txAck = {}
\* When may a terminating endpoint close?  Intended design: both SESS_TERMs exchanged (its own sent,
\* the peer's acted on), no transfer pending, and BOTH transmit buffers drained.  The code (deviations)
\* neither waits for the peer's SESS_TERM nor looks at the connection-level buffer, whose content
\* close() then drops.
Drained(s) == "close_drops_socket_buffer" \in Dev \/ s.cbuf = <<>>
PeerDone(s) == "close_before_peer_term" \in Dev \/ s.gotTerm
MayClose(s) == SessIdle(s) /\ PeerDone(s) /\ Drained(s)
CloseDeferred(s) == SessIdle(s) /\ PeerDone(s) /\ ~Drained(s)

\* Connection.close: sources removed; what is still buffered is lost
Close(s, e) == IF ~s.open THEN s
               ELSE Ev([s EXCEPT !.open = FALSE, !.txp = FALSE], EvClosed(e))

\* _check_sess_term
CheckSessTerm(s, e) == IF s.inTerm /\ MayClose(s) THEN Close(s, e)
                       ELSE IF s.inTerm /\ CloseDeferred(s) THEN [s EXCEPT !.cw = TRUE] ELSE s

\* send_sess_term (callers guarantee inSess /\ ~inTerm)
SendTerm(s, reply, reason) == Enc([s EXCEPT !.inTerm = TRUE], MTerm(reply, reason))

View(s, e) == [a |-> "View", e |-> e, n |-> "", t |-> 0,
               v |-> [state |-> IF s.inTerm THEN "ending" ELSE IF s.inSess THEN "established" ELSE "x",
                      idle |-> SessIdle(s), txq |-> SetToSortedSeq(s.txMap), rxq |-> SetToSortedSeq(s.rxMap),
                      rxbuf |-> 0, secure |-> FALSE, closed |-> ~s.open, recvd |-> 0, sent |-> 0]]

\* commit the record back into the variables and publish the callback's sub-events
Commit(e, s0) ==
  LET s == Ev(s0, View(s0, e)) IN
  /\ ph' = [ph EXCEPT ![e] = [open |-> s.open, started |-> s.started, inConn |-> s.inConn, inSess |-> s.inSess,
                              inTerm |-> s.inTerm, gotTerm |-> s.gotTerm]]
  /\ txQ' = [txQ EXCEPT ![e] = s.txQ] /\ txCur' = [txCur EXCEPT ![e] = s.txCur]
  /\ txAck' = [txAck EXCEPT ![e] = s.txAck] /\ txMap' = [txMap EXCEPT ![e] = s.txMap]
  /\ nextId' = [nextId EXCEPT ![e] = s.nextId] /\ nSent' = [nSent EXCEPT ![e] = s.nSent]
  /\ rxCur' = [rxCur EXCEPT ![e] = s.rxCur] /\ rxMap' = [rxMap EXCEPT ![e] = s.rxMap]
  /\ buf' = [buf EXCEPT ![e] = s.buf] /\ cbuf' = [cbuf EXCEPT ![e] = s.cbuf]
  /\ segSize' = [segSize EXCEPT ![e] = s.segSize] /\ txTimes' = [txTimes EXCEPT ![e] = s.txTimes]
  /\ pq' = [pq EXCEPT ![e] = s.pq] /\ txp' = [txp EXCEPT ![e] = s.txp] /\ cw' = [cw EXCEPT ![e] = s.cw]
  /\ pend' = s.evs
  /\ UNCHANGED <<allOk, ovars>>

Idle == pend = <<>>

----------------------------------------------------------------------------
(* callbacks *)

Start(e) ==
  /\ Idle /\ ~ph[e].started /\ ph[e].open /\ e \notin Adv
  /\ LET s0 == [EndState(e) EXCEPT !.started = TRUE]
         s1 == IF e = "A" THEN Enc(s0, MCh) ELSE s0
     IN Commit(e, s1) /\ UNCHANGED <<nDeliv, nAdv, advAcked, rxStuck>>

\* send_bundle_data -> _add_queue_item
UserSend(e, len) ==
  /\ Idle /\ ph[e].started /\ ph[e].open /\ nSent[e] < MaxSend[e]
  /\ LET s0 == EndState(e)
         id == s0.nextId
         s1 == [s0 EXCEPT !.nextId = id + 1, !.nSent = @ + 1, !.txQ = Append(@, [id |-> id, len |-> len]),
                          !.txMap = @ \cup {id}, !.pq = TRUE]
     IN Commit(e, Ev(s1, EvUserSend(e, id, len))) /\ UNCHANGED <<nDeliv, nAdv, advAcked, rxStuck>>

\* terminate(): outside a session, or twice, the call raises and changes nothing
UserTerminate(e) ==
  /\ Idle /\ e \in AllowTerm /\ ph[e].open /\ ph[e].inSess /\ ~ph[e].inTerm
  /\ LET s1 == Ev(SendTerm(EndState(e), FALSE, 0), EvUserTerm(e))
     IN Commit(e, s1) /\ UNCHANGED <<nDeliv, nAdv, advAcked, rxStuck>>

\* deviation close_reports_zero_length_success (a seeded change, round 8): close() reports the transfers still
\* awaiting their final ACK, 'success' when the acknowledged length equals the length - which a zero-length bundle
\* satisfies before anything was acknowledged (or even written)
RECURSIVE CloseReports(_, _, _)
CloseReports(x, e, ids) ==
  IF ids = {} THEN x
  ELSE LET i == CHOOSE j \in ids : TRUE
       IN CloseReports(Ev(x, EvSig(e, "send_bundle_finished", i, 0, "success")), e, ids \ {i})
ZeroLenAwaitingAck(s, e) ==
  {i \in s.txAck : \E k \in DOMAIN queued[e] : queued[e][k].id = i /\ queued[e][k].len = 0}

UserClose(e) ==
  /\ Idle /\ e \in AllowClose /\ ph[e].open /\ ph[e].started
  /\ LET s0 == Ev(EndState(e), EvUserClose(e))
         s1 == IF "close_reports_zero_length_success" \in Dev THEN CloseReports(s0, e, ZeroLenAwaitingAck(s0, e)) ELSE s0
     IN Commit(e, Close(s1, e))
  /\ UNCHANGED <<nDeliv, nAdv, advAcked, rxStuck>>

UserPop(e) ==
  /\ Idle /\ AllowPop /\ rxMap[e] # {}
  /\ LET id == CHOOSE x \in rxMap[e] : \A y \in rxMap[e] : x <= y
         s0 == EndState(e)
     IN Commit(e, Ev([s0 EXCEPT !.rxMap = @ \ {id}], EvUserPop(e, id))) /\ UNCHANGED <<nDeliv, nAdv, advAcked, rxStuck>>

\* _process_queue
ProcessQueue(e) ==
  /\ Idle /\ pq[e]
  /\ LET s0 == [EndState(e) EXCEPT !.pq = FALSE]
         waiting == s0.txCur.id = NONE /\ ~s0.inSess          \* "waiting for session": source stays
         nothing == s0.txCur.id = NONE /\ s0.inSess /\ s0.txQ = <<>>
         \* intended design: nothing new is started once termination has begun
         refuse == s0.txCur.id = NONE /\ s0.inSess /\ s0.txQ # <<>> /\ s0.inTerm /\ "start_after_term" \notin Dev
     IN
     IF waiting THEN Commit(e, [s0 EXCEPT !.pq = ("busy_wait_abstracted" \notin Dev)])
     ELSE IF nothing THEN Commit(e, s0)
     ELSE IF refuse THEN
        \* flush the queue as recv_sess_term does
        LET RECURSIVE Flush(_)
            Flush(s) == IF s.txQ = <<>> THEN s
                        ELSE Flush(Ev([s EXCEPT !.txQ = Tail(@), !.txMap = @ \ {Head(s.txQ).id}],
                                      EvSig(e, "send_bundle_finished", Head(s.txQ).id, Head(s.txQ).len, "session terminating")))
        IN Commit(e, CheckSessTerm(Flush(s0), e))
     ELSE
        LET s1 == IF s0.txCur.id = NONE
                  THEN Ev([s0 EXCEPT !.txCur = [id |-> Head(s0.txQ).id, len |-> Head(s0.txQ).len, sent |-> 0],
                                     !.txQ = Tail(@)],
                          EvSig(e, "send_bundle_started", Head(s0.txQ).id, Head(s0.txQ).len, ""))
                  ELSE s0
             cur == s1.txCur
             \* deviation of the code: a zero-length transfer "has nothing more to send" before its
             \* first segment, so it is never sent and blocks the queue
             stuck == cur.len = 0 /\ "zero_length_stuck" \in Dev
        IN
        IF stuck THEN Commit(e, s1)
        ELSE
          LET n == Min(s1.segSize, cur.len - cur.sent)
              sent == cur.sent + n
              isEnd == sent = cur.len
              m == MSeg(cur.id, n, cur.sent = 0, isEnd, cur.len)
              s2 == Enc([s1 EXCEPT !.txCur.sent = sent,
                                   !.txTimes = IF Adapting(e) THEN @ \cup {TimeKey(cur.id, sent)} ELSE @], m)
              s3 == IF isEnd THEN [s2 EXCEPT !.txAck = @ \cup {cur.id}, !.txCur = NoCur, !.pq = TRUE] ELSE s2
          IN Commit(e, s3)
  /\ UNCHANGED <<nDeliv, nAdv, advAcked, rxStuck>>

\* _tx_proxy: refill the connection buffer from the message buffer (up to CHUNK_SIZE: everything, here),
\* then the socket accepts k messages.  send_raw() -> send_buffer_decreased() re-triggers the queue.
TxPump(e, q) ==
  /\ Idle /\ txp[e] /\ ph[e].open
  /\ LET s0 == EndState(e)
         moved == [s0 EXCEPT !.cbuf = @ \o s0.buf, !.buf = <<>>,
                             !.pq = (@ \/ (s0.segSize > 0))]
         k == IF q = "one" THEN Min(1, Len(moved.cbuf)) ELSE Len(moved.cbuf)
         RECURSIVE Put(_, _)
         Put(s, j) == IF j = 0 THEN s
                      ELSE Put(Ev(Ev([s EXCEPT !.cbuf = Tail(@)], EvTx(e, Head(s.cbuf).size)), EvWire(e, Head(s.cbuf))), j - 1)
         s1 == Put(moved, k)
         s2 == [s1 EXCEPT !.txp = (s1.cbuf # <<>>)]
         \* intended design re-checks for close once the socket buffer has drained
         s3 == IF s2.cw /\ s2.cbuf = <<>> THEN CheckSessTerm([s2 EXCEPT !.cw = FALSE], e) ELSE s2
     IN Commit(e, s3)
  /\ UNCHANGED <<nDeliv, nAdv, advAcked, rxStuck>>

\* recv_message for one message m (already removed from the receive buffer)
TypeCode(m) == CASE m.t = "SEG" -> 1 [] m.t = "ACK" -> 2 [] m.t = "REFUSE" -> 3 [] m.t = "KA" -> 4
                 [] m.t = "TERM" -> 5 [] m.t = "REJECT" -> 6 [] m.t = "INIT" -> 7 [] OTHER -> 0
RECURSIVE FlushQ(_, _)
FlushQ(x, e) == IF x.txQ = <<>> THEN x
                ELSE FlushQ(Ev([x EXCEPT !.txQ = Tail(@), !.txMap = @ \ {Head(x.txQ).id}],
                               EvSig(e, "send_bundle_finished", Head(x.txQ).id, Head(x.txQ).len, "session terminating")), e)
OnMessage(s, e, m, c) ==
  LET p == Peer(e) IN
  IF ~s.inConn THEN
     \* whatever arrives first is read as the contact header
     IF m.t = "CH" /\ m.magicok /\ m.ver = 4
     THEN LET s1 == IF e = "P" THEN Enc(s, MCh) ELSE s
              s2 == [s1 EXCEPT !.inConn = TRUE]
          IN IF e = "A" THEN Enc(s2, MInit(e)) ELSE s2
     ELSE Close(s, e)
  ELSE
  \* session parameters are negotiated once: a further SESS_INIT is a message out of place
  \* (deviation second_init_accepted: the code before its repair negotiated again, the passive end answering
  \* with a second SESS_INIT of its own)
  CASE m.t = "INIT" /\ s.inSess /\ "second_init_accepted" \notin Dev -> Enc(s, MReject(TypeCode(m), 3))
    [] m.t = "INIT" ->
         LET s1 == IF e = "P" THEN Enc(s, MInit(e)) ELSE s
         IN [s1 EXCEPT !.inSess = TRUE, !.segSize = Min(SegInit[e], m.mru),
                       !.pq = (@ \/ "busy_wait_abstracted" \in Dev)]
    [] m.t \in {"SEG", "ACK", "REFUSE", "TERM"} /\ ~s.inSess -> Enc(s, MReject(TypeCode(m), 3))
    [] m.t = "TERM" ->
         LET s0 == [s EXCEPT !.gotTerm = TRUE]
             s1 == IF ~s0.inTerm THEN SendTerm(s0, TRUE, m.reason) ELSE s0
         IN CheckSessTerm(FlushQ(s1, e), e)
    [] m.t = "SEG" ->
         LET start == HasStart(m.flags)
             okseg == start \/ s.rxCur.id = m.id
         IN IF ~okseg THEN Enc(s, MReject(1, 3))
            ELSE
              LET got == (IF start THEN 0 ELSE s.rxCur.got) + m.len
                  s1 == Enc(s, MAck(m.id, got, m.flags))
              IN IF HasEnd(m.flags)
                 THEN CheckSessTerm(Ev([s1 EXCEPT !.rxCur = NoRx, !.rxMap = @ \cup {m.id}],
                                       EvSig(e, "recv_bundle_finished", m.id, got, "success")), e)
                 ELSE [s1 EXCEPT !.rxCur = [id |-> m.id, got |-> got]]
    [] m.t = "ACK" ->
         IF m.id \notin s.txMap THEN Enc(s, MReject(2, 3))
         ELSE IF Adapting(e) /\ TimeKey(m.id, m.len) \notin s.txTimes /\ "ack_timing_keyed_by_length" \in Dev
         THEN Ev(s, EvEscape(e))             \* the table lookup fails, nothing else of the handler runs
         ELSE
         LET s0 == IF Adapting(e) /\ TimeKey(m.id, m.len) \in s.txTimes
                   THEN [s EXCEPT !.txTimes = @ \ {TimeKey(m.id, m.len)}, !.segSize = Clamp(c, SegMru[Peer(e)])]
                   ELSE s
         IN IF HasEnd(m.flags)
            THEN CheckSessTerm(Ev([s0 EXCEPT !.txAck = @ \ {m.id}, !.txMap = @ \ {m.id}],
                                  EvSig(e, "send_bundle_finished", m.id, m.len, "success")), e)
            ELSE s0
    [] m.t = "REFUSE" ->
         IF m.id \notin s.txMap THEN Enc(s, MReject(3, 3))
         ELSE LET s1 == Ev([s EXCEPT !.txAck = @ \ {m.id}, !.txMap = @ \ {m.id},
                                     !.txQ = SelectSeq(@, LAMBDA it : it.id # m.id)],
                           EvSig(e, "send_bundle_finished", m.id, 0, "refused"))
                  s2 == IF s1.txCur.id = m.id THEN [s1 EXCEPT !.txCur = NoCur, !.pq = TRUE] ELSE s1
              IN CheckSessTerm(s2, e)
    [] OTHER -> s    \* KEEPALIVE, MSG_REJECT: nothing to do at this level

\* _rx_proxy -> recv_raw: one complete message arrives and is handled.  A message of unknown type (this
\* includes a second contact header) cannot be framed: intended design = MSG_REJECT(unknown) and closure;
\* deviation of the code = it waits for ever for "the rest" and handles nothing after it.
NetRecv(e) ==
  LET p == Peer(e) IN
  /\ Idle /\ ph[e].open /\ ph[e].started /\ nDeliv[e] < Len(wire[p]) /\ ~rxStuck[e]
  /\ LET m == wire[p][nDeliv[e] + 1]
         unknown == ph[e].inConn /\ m.t \in {"UNKNOWN", "CH"}
         s0 == Ev(EndState(e), EvRx(e, m.size))
     IN IF unknown
        THEN /\ rxStuck' = [rxStuck EXCEPT ![e] = TRUE]
             /\ IF "unknown_type_wedges" \in Dev THEN Commit(e, s0)
                ELSE Commit(e, Close(Enc(s0, MReject(m.typ, 1)), e))
        ELSE /\ \E c \in (IF Adapting(e) /\ m.t = "ACK" THEN SegChoice ELSE {0}) :
                  Commit(e, OnMessage(Ev(s0, EvHandle(e, m, nDeliv[e] + 1, hCum[e] + m.size)), e, m, c))
             /\ UNCHANGED rxStuck
  /\ nDeliv' = [nDeliv EXCEPT ![e] = @ + 1]
  /\ UNCHANGED <<nAdv, advAcked>>

\* the adversary: puts any message of its catalogue on its wire, and acknowledges the victim's segments
AdvSend(a, m) ==
  /\ Idle /\ a \in Adv /\ nAdv < MaxAdv
  /\ nAdv' = nAdv + 1
  /\ pend' = <<EvWire(a, m)>>
  /\ UNCHANGED <<ph, txQ, txCur, txAck, txMap, nextId, nSent, rxCur, rxMap, buf, cbuf, segSize, txTimes, pq, txp, cw,
                 nDeliv, advAcked, rxStuck, allOk, ovars>>

AdvAck(a) ==
  LET v == Peer(a) IN
  /\ Idle /\ a \in Adv /\ advAcked < Len(segs[v])
  /\ LET sg == segs[v][advAcked + 1] IN pend' = <<EvWire(a, MAck(sg.id, sg.cum, sg.flags))>>
  /\ advAcked' = advAcked + 1
  /\ UNCHANGED <<ph, txQ, txCur, txAck, txMap, nextId, nSent, rxCur, rxMap, buf, cbuf, segSize, txTimes, pq, txp, cw,
                 nDeliv, nAdv, rxStuck, allOk, ovars>>

\* the peer closed and everything it sent has been read: recv() returns b''
PeerEof(e) ==
  LET p == Peer(e) IN
  /\ Idle /\ ph[e].open /\ ph[e].started /\ ~ph[p].open /\ nDeliv[e] = Len(wire[p])
  /\ Commit(e, Close(Ev(EndState(e), [a |-> "PeerEof", e |-> e, n |-> "", t |-> 0]), e))
  /\ UNCHANGED <<nDeliv, nAdv, advAcked, rxStuck>>

\* observer drains the callback's sub-events, one per step
Drain ==
  /\ pend # <<>>
  /\ LET ev == Head(pend) IN
       /\ allOk' = (allOk /\ AllHold(Clauses(ev)))
       /\ Upd(ev)
       /\ tid' = tid /\ l' = l
  /\ pend' = Tail(pend)
  /\ UNCHANGED <<ph, txQ, txCur, txAck, txMap, nextId, nSent, rxCur, rxMap, buf, cbuf, segSize, txTimes, pq, txp, cw, nDeliv, nAdv, advAcked, rxStuck>>

Callback ==
  \E e \in Ends :
     \/ Start(e) \/ UserTerminate(e) \/ UserClose(e) \/ UserPop(e) \/ ProcessQueue(e) \/ NetRecv(e) \/ PeerEof(e)
     \/ \E len \in Lens : UserSend(e, len)
     \/ \E q \in Quanta : TxPump(e, q)
     \/ AdvAck(e)
     \/ \E m \in AdvMoves : AdvSend(e, m)

Next == Drain \/ Callback

Init ==
  /\ tid = 0 /\ l = 0 /\ ObsInitWith(SetToSortedSeqS(Ends \ Adv))
  /\ ph = [e \in Ends |-> [open |-> TRUE, started |-> FALSE, inConn |-> FALSE, inSess |-> FALSE, inTerm |-> FALSE,
                            gotTerm |-> FALSE]]
  /\ txQ = [e \in Ends |-> <<>>] /\ txCur = [e \in Ends |-> NoCur]
  /\ txAck = [e \in Ends |-> {}] /\ txMap = [e \in Ends |-> {}]
  /\ nextId = [e \in Ends |-> 1] /\ nSent = [e \in Ends |-> 0]
  /\ rxCur = [e \in Ends |-> NoRx] /\ rxMap = [e \in Ends |-> {}]
  /\ buf = [e \in Ends |-> <<>>] /\ cbuf = [e \in Ends |-> <<>>]
  /\ segSize = [e \in Ends |-> 0] /\ txTimes = [e \in Ends |-> {}]
  /\ pq = [e \in Ends |-> FALSE] /\ txp = [e \in Ends |-> FALSE] /\ cw = [e \in Ends |-> FALSE]
  /\ nDeliv = [e \in Ends |-> 0] /\ nAdv = 0 /\ advAcked = 0 /\ rxStuck = [e \in Ends |-> FALSE]
  /\ pend = <<>> /\ allOk = TRUE

Spec == Init /\ [][Next]_vars
\* Callbacks are enabled only between callbacks (Idle), so a callback that re-arms itself for ever (the code's
\* _process_queue while it waits for the session: a busy wait at idle priority) gives cycles on which no other
\* source is *continuously* enabled, and weak fairness forces nothing.  Strong fairness is what the GLib loop
\* provides, but TLC's SF check did not finish on 14 k states in 15 min; the liveness configuration therefore
\* abstracts the busy wait ("busy_wait_abstracted": the source is re-armed by SESS_INIT instead, which is
\* observably the same) and the remaining callback graph has no cycles, so weak fairness suffices.
FairSpec == Spec /\ WF_vars(Drain)
                 /\ \A e \in Ends : WF_vars(Start(e)) /\ WF_vars(ProcessQueue(e)) /\ WF_vars(NetRecv(e))
                                    /\ WF_vars(PeerEof(e)) /\ WF_vars(TxPump(e, "all")) /\ WF_vars(UserPop(e))

----------------------------------------------------------------------------
(* properties *)
OK == allOk

\* terminal-state clauses: when nothing can run any more, the Final clauses of the observer hold
Quiescent == pend = <<>> /\ ~ENABLED Callback
FinalEv(e) == [a |-> "Final", e |-> e, n |-> "", t |-> 0,
               v |-> [state |-> "", idle |-> SessIdle(EndState(e)), txq |-> <<>>, rxq |-> <<>>, rxbuf |-> 0,
                      secure |-> FALSE, closed |-> ~ph[e].open, recvd |-> 0, sent |-> 0]]
QuiescentOK == Quiescent => \A e \in Ends : AllHold(Clauses(FinalEv(e)))

\* for error traces (cfg: ALIAS Dbg): which terminal clauses fail, and the essentials of the state
FailedFinal == UNION {{<<e, c.name>> : c \in {d \in Clauses(FinalEv(e)) : Applies(d) /\ ~Holds(d)}} : e \in Ends}
Dbg == [failed |-> IF Quiescent THEN FailedFinal ELSE {}, ph |-> ph, pend |-> [i \in DOMAIN pend |-> <<pend[i].a, pend[i].e, pend[i].n>>],
        wireA |-> [i \in DOMAIN wire["A"] |-> <<wire["A"][i].t, wire["A"][i].flags, wire["A"][i].id, wire["A"][i].len>>],
        wireP |-> [i \in DOMAIN wire["P"] |-> <<wire["P"][i].t, wire["P"][i].flags, wire["P"][i].id, wire["P"][i].len>>],
        bufs |-> [e \in Ends |-> <<Len(buf[e]), Len(cbuf[e])>>], txQ |-> txQ, txCur |-> txCur, txAck |-> txAck,
        closed |-> closed, termReq |-> termReq, queued |-> queued, sfin |-> sfin, rfin |-> rfin, allOk |-> allOk]

\* liveness (FairSpec): a run always reaches a state in which nothing more can happen
\* the event loop runs out of work (what users might still do is not work the loop owes)
LoopIdle == pend = <<>> /\ \A e \in Ends : ~ENABLED Start(e) /\ ~ENABLED ProcessQueue(e) /\ ~ENABLED NetRecv(e)
                                          /\ ~ENABLED PeerEof(e) /\ ~ENABLED TxPump(e, "all")
Terminates == <>[]LoopIdle
\* C09: once termination has been requested both endpoints end closed
TermLive == (termReq["A"] \/ termReq["P"]) ~> (~ph["A"].open /\ ~ph["P"].open)
\* C01: without termination/close every queued bundle is eventually held by the peer
AllDelivered == \A e \in Ends : [](\A i \in DOMAIN queued[e] : <>(queued[e][i].id \in SuccessIds(rfin[Peer(e)])))

\* keep the graph finite: users stop queueing at MaxSend; histories are bounded by that
StateConstraint == TRUE
=============================================================================

----------------------------- MODULE BpSecCover -----------------------------
(***************************************************************************)
(* What a BPSec COSE-context security operation covers (C03 integrity,     *)
(* C16 confidentiality).                                                   *)
(*                                                                         *)
(* Field classes of an encoded secured bundle:                             *)
(*   pri.*        primary block fields (flags, src, rpt, ts, lifetime, crc)*)
(*   tgt.data     block-type-specific data of the target                   *)
(*   tgt.type / tgt.num / tgt.flags   metadata of the target block         *)
(*   tgt.crc      CRC type of the target block (never bound)               *)
(*   sec.source / sec.scope / sec.protected   security source, AAD scope   *)
(*                parameter, additional protected parameters               *)
(*   sec.flags / sec.num   metadata of the security block itself           *)
(*   other.meta / other.data   another block of the bundle                 *)
(*   res.tag / res.alg / res.kid   MAC tag or signature (AEAD tag for BCB),*)
(*                protected algorithm header, key identifier               *)
(* Covered(cls, scope) is the declarative statement of the property: the   *)
(* operation must fail after a change to a covered class and must still    *)
(* succeed after a change to an uncovered one.  CodeBinds is the           *)
(* implementation-shaped side: what get_external_aad() / the COSE          *)
(* structures of bp.app.bpsec put under the MAC.  TLC compares the two     *)
(* over every kind x scope x class x key state, and the same Covered       *)
(* judges recorded cases of the real code (trace mode).                    *)
(***************************************************************************)
EXTENDS Naturals, Sequences, FiniteSets, TLC, ClauseLib, Json, IOUtils, TLCExt

Classes == {"none", "pri.flags", "pri.src", "pri.rpt", "pri.ts", "pri.lifetime", "pri.crc", "tgt.flags", "tgt.crc",
            "tgt.data", "tgt.num", "tgt.type", "sec.flags", "sec.num", "other.meta", "other.data", "sec.source",
            "sec.scope", "sec.protected", "res.tag", "res.alg", "res.kid", "tgt.data+attached",
            "pri.flags.rsv", "tgt.flags.rsv"}   \* .rsv: a flag bit that has no assigned meaning
Primary == {"pri.flags", "pri.src", "pri.rpt", "pri.ts", "pri.lifetime", "pri.crc", "pri.flags.rsv"}
Scopes == [pri_meta : BOOLEAN, tgt_meta : BOOLEAN, tgt_btsd : BOOLEAN, sec_meta : BOOLEAN, oth_meta : BOOLEAN,
           oth_btsd : BOOLEAN]

(* ---------------- declarative: the property ---------------- *)
Covered(cls, scope) ==
  \/ cls \in {"tgt.data", "sec.source", "sec.scope", "sec.protected", "res.tag", "res.alg"}
  \/ cls = "tgt.data+attached"   \* altered content with the genuine content embedded in the (to be detached) COSE payload
  \/ cls = "res.kid"                          \* not authenticated, but it selects the key: a wrong key must fail
  \/ cls \in Primary /\ scope.pri_meta
  \/ cls \in {"tgt.type", "tgt.num", "tgt.flags", "tgt.flags.rsv"} /\ scope.tgt_meta
  \/ cls \in {"sec.flags", "sec.num"} /\ scope.sec_meta
  \/ cls = "other.meta" /\ scope.oth_meta
  \/ cls = "other.data" /\ scope.oth_btsd
MustVerify(cls, scope, keyok) == keyok /\ ~Covered(cls, scope)

(* ---------------- implementation-shaped: bp.app.bpsec ---------------- *)
CONSTANT Dev
\* external AAD = source EID, scope map, per referenced block: whole primary block / (type, number, flags) / data,
\* then the additional protected parameters; the COSE structure adds protected headers and the target data
CodeBinds(cls, scope) ==
  \/ cls = "tgt.data"                                                          \* payload of the COSE structure
  \/ cls = "tgt.data+attached" /\ "trusts_attached_payload" \notin Dev         \* the block content always replaces it
  \/ cls = "sec.source"
  \/ cls = "sec.scope"
  \/ cls = "sec.protected" /\ "aad_without_protected" \notin Dev
  \/ cls \in {"res.tag", "res.alg"}                                            \* the tag itself / protected header
  \/ cls = "res.kid"                                                           \* key lookup fails
  \* the AAD is built from the re-encoded decoded fields: what decoding drops is not bound (deviation: flag
  \* bits without a name are masked away on decode)
  \/ cls \in Primary /\ scope.pri_meta /\ "aad_without_primary" \notin Dev      \* bytes(primary), CRC included
       /\ ~(cls = "pri.flags.rsv" /\ "decode_masks_unnamed_flags" \in Dev)
  \/ cls \in {"tgt.type", "tgt.num", "tgt.flags", "tgt.flags.rsv"} /\ scope.tgt_meta /\ "aad_without_target_meta" \notin Dev
       /\ ~(cls = "tgt.flags.rsv" /\ "decode_masks_unnamed_flags" \in Dev)
  \/ cls \in {"sec.flags", "sec.num"} /\ scope.sec_meta
  \/ cls = "other.meta" /\ scope.oth_meta
  \/ cls = "other.data" /\ scope.oth_btsd
CodeVerifies(cls, scope, keyok) == keyok /\ ~CodeBinds(cls, scope)

VARIABLES case, verdict, seenCovered, seenUncovered
mvars == <<case, verdict>>

\* A bundle carries one or two security operations (two targets of one security block, or two security
\* blocks).  The bundle is delivered only if every operation verifies: what one operation finds must not be
\* lost by the next one ("last_result_wins": the verdict variable is overwritten per target), and no operation
\* may be skipped ("skips_after_accepted": the list of security blocks is walked while accepted ones are
\* removed from it).  The second operation ranges over two representative scopes to keep the space small.
Scope2 == {[pri_meta |-> TRUE, tgt_meta |-> TRUE, tgt_btsd |-> FALSE, sec_meta |-> TRUE, oth_meta |-> FALSE, oth_btsd |-> FALSE],
           [pri_meta |-> FALSE, tgt_meta |-> FALSE, tgt_btsd |-> FALSE, sec_meta |-> FALSE, oth_meta |-> FALSE, oth_btsd |-> FALSE]}
NoOp2 == [cls |-> "none", scope |-> CHOOSE x \in Scope2 : x.pri_meta, keyok |-> TRUE]
Cases == {[op1 |-> o1, n |-> 1, op2 |-> NoOp2, accept |-> a] :
             o1 \in [cls : Classes, scope : Scopes, keyok : BOOLEAN], a \in BOOLEAN}
         \cup {[op1 |-> o1, n |-> 2, op2 |-> o2, accept |-> a] :
             o1 \in [cls : Classes, scope : Scope2, keyok : BOOLEAN],
             o2 \in [cls : Classes, scope : Scope2, keyok : BOOLEAN], a \in BOOLEAN}
OpOk(o) == CodeVerifies(o.cls, o.scope, o.keyok)
CodeVerdict(c) ==
  IF c.n = 1 THEN OpOk(c.op1)
  ELSE IF "last_result_wins" \in Dev THEN OpOk(c.op2)
  ELSE IF "skips_after_accepted" \in Dev /\ c.accept /\ OpOk(c.op1) THEN TRUE
  ELSE OpOk(c.op1) /\ OpOk(c.op2)
Must(c) == MustVerify(c.op1.cls, c.op1.scope, c.op1.keyok)
           /\ (c.n = 2 => MustVerify(c.op2.cls, c.op2.scope, c.op2.keyok))

MInit == /\ case \in Cases
         /\ verdict = "pending"
         /\ tid = 0 /\ l = 0 /\ kfUsed = {} /\ seenCovered = {} /\ seenUncovered = {}
MNext == /\ verdict = "pending"
         /\ verdict' = IF CodeVerdict(case) THEN "ok" ELSE "fail"
         /\ UNCHANGED <<case, tid, l, kfUsed, seenCovered, seenUncovered>>
MSpec == MInit /\ [][MNext]_<<case, verdict, tid, l, kfUsed, seenCovered, seenUncovered>>
VerifyIffUnaltered == verdict # "pending" => ((verdict = "ok") <=> Must(case))

(* ---------------- trace mode: recorded cases of the real code ---------------- *)
Traces == JsonDeserialize(IOEnv.TRACE_FILE)
IntegrityTag == "C03"
ConfTag == "C16"
Tag(ev) == IF ev.conf THEN {ConfTag} ELSE {IntegrityTag}

Clauses(ev) ==
  IF ev.a = "Case" THEN {
      C(Tag(ev), "VerifiesIffNothingCoveredWasAlteredAndKeyIsRight",
          ev.delivered <=> MustVerify(ev.cls, ev.scope, ev.keyok)),
      C(Tag(ev), "AgreesWithIndependentImplementationOfTheContext",
          ev.indep \in {"ok", "fail"} => (ev.delivered <=> (ev.indep = "ok"))),
      C(Tag(ev), "FailureIsReportedAsSecurityFailure",
          ~ev.delivered => (ev.deleted /\ ev.reason \in {8, 12, 13, 14, 15, 16})),
      C({ConfTag}, "WireCarriesCiphertextNeverPlaintext", ev.conf => ~ev.wire_plain),
      C({ConfTag}, "AcceptedTargetIsExactlyTheOriginalPlaintext",
          (ev.conf /\ ev.delivered /\ ev.accept /\ ev.target_is_payload) => ev.got_plain),
      C({ConfTag}, "PlaintextNotReleasedOnFailure", (ev.conf /\ ~ev.delivered) => ~ev.got_plain)
    }
  ELSE IF ev.a = "End" THEN {
      \* not vacuous: for every kind both directions of the iff were exercised
      C({IntegrityTag, ConfTag}, "BothDirectionsExercisedForEveryKind",
          \A k \in {ev.kinds[i] : i \in DOMAIN ev.kinds} : k \in seenCovered /\ k \in seenUncovered)
    }
  ELSE {}

TraceInit ==
  /\ tid \in 1..Len(Traces) /\ l = 1 /\ kfUsed = {}
  /\ seenCovered = {} /\ seenUncovered = {}
  /\ case = [cls |-> "none"] /\ verdict = "trace"
  /\ TLCSet(tid, 1)
TraceNext ==
  /\ l <= Len(Traces[tid])
  /\ LET ev == Traces[tid][l] IN
       /\ AllOK(Clauses(ev))
       /\ kfUsed' = kfUsed \cup KfIn(Clauses(ev))
       /\ seenCovered' = IF ev.a = "Case" /\ ev.cls # "none" /\ Covered(ev.cls, ev.scope) THEN seenCovered \cup {ev.kind} ELSE seenCovered
       /\ seenUncovered' = IF ev.a = "Case" /\ ev.cls # "none" /\ ~Covered(ev.cls, ev.scope) THEN seenUncovered \cup {ev.kind} ELSE seenUncovered
  /\ l' = l + 1 /\ tid' = tid
  /\ UNCHANGED <<case, verdict>>
  /\ TLCSet(tid, l + 1)
  /\ (l + 1 > Len(Traces[tid]) => PrintT(<<"DONE", tid, kfUsed'>>))
TraceSpec == TraceInit /\ [][TraceNext]_<<tid, l, kfUsed, seenCovered, seenUncovered, case, verdict>>
TraceReport == \A t \in 1..Len(Traces) : PrintT(<<"REACHED", t, TLCGet(t), Len(Traces[t])>>)
=============================================================================

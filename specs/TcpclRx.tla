------------------------------ MODULE TcpclRx ------------------------------
(***************************************************************************)
(* Receive framing of the TCPCL Messenger (recv_raw): an octet stream made *)
(* of a contact header and messages arrives in arbitrary chunks; after     *)
(* every read callback exactly the complete messages have been acted on,   *)
(* in order, and the remainder is kept (property C07, first sentence).     *)
(*                                                                         *)
(* The stream is a sequence of messages drawn from a catalogue (only the   *)
(* octet sizes matter for framing); TLC enumerates every stream of at most *)
(* MaxMsgs messages and every way of cutting it into reads.  The receiver  *)
(* is implementation-shaped: append, then "while a complete message is at  *)
(* the front of the buffer: remove it and act on it".  Observable          *)
(* sub-events go through the observer TcpclObs (same clauses as used for   *)
(* traces of the real code).                                               *)
(***************************************************************************)
EXTENDS TcpclObs

CONSTANTS Catalogue,   \* set of message records (uniform shape of TcpclObs)
          MaxMsgs,
          Dev

VARIABLES stream,      \* the whole stream the peer will send (Seq of msgs)
          buffered,    \* octets in the receive buffer
          acted,       \* messages removed from the buffer and acted on
          pend, allOk

rvars == <<stream, buffered, acted, pend, allOk>>
vars == <<ovars, rvars>>

R == "P"     \* the receiver under study
S == "A"     \* the sending peer

RECURSIVE SumSize(_)
SumSize(s) == IF s = <<>> THEN 0 ELSE Head(s).size + SumSize(Tail(s))
Total == SumSize(stream)

\* size below which the code considers the front message complete
\* deviation: the contact header (first message) was decoded from 5 octets
Needed(i) == IF i = 1 /\ "partial_contact_header" \in Dev THEN stream[i].size - 1 ELSE stream[i].size

EvWire(m) == [a |-> "Wire", e |-> S, n |-> m.t, m |-> m, t |-> 0]
EvRx(k) == [a |-> "Rx", e |-> R, n |-> "", i |-> [k |-> k], t |-> 0]
EvHandle(m, idx, cum) == [a |-> "Handle", e |-> R, n |-> m.t, m |-> m, i |-> [idx |-> idx, cum |-> cum], t |-> 0]
EvView(buf) == [a |-> "View", e |-> R, n |-> "rx", t |-> 0,
                v |-> [state |-> "x", idle |-> FALSE, txq |-> <<>>, rxq |-> <<>>, rxbuf |-> buf, secure |-> FALSE,
                       closed |-> FALSE, recvd |-> 0, sent |-> 0]]

\* recv_raw after appending k octets: returns <<events, acted', buffered'>>
RECURSIVE Loop(_, _, _, _)
Loop(evs, n, buf, cum) ==
  IF n < Len(stream) /\ buf >= Needed(n + 1)
  THEN LET m == stream[n + 1]
           take == IF m.size <= buf THEN m.size ELSE buf
       IN Loop(Append(evs, EvHandle(m, n + 1, cum + m.size)), n + 1, buf - take, cum + m.size)
  ELSE <<evs, n, buf>>

Recv(k) ==
  /\ pend = <<>>
  /\ rxOct[R] + k <= Total
  /\ LET res == Loop(<<EvRx(k)>>, acted, buffered + k, hCum[R]) IN
       /\ pend' = Append(res[1], EvView(res[3]))
       /\ acted' = res[2]
       /\ buffered' = res[3]
  /\ UNCHANGED <<stream, allOk, ovars>>

Drain ==
  /\ pend # <<>>
  /\ LET ev == Head(pend) IN
       /\ allOk' = (allOk /\ AllHold(Clauses(ev)))
       /\ Upd(ev)
       /\ tid' = tid /\ l' = l
  /\ pend' = Tail(pend)
  /\ UNCHANGED <<stream, buffered, acted>>

Next == Drain \/ \E k \in 1..Total : Recv(k)

Streams == UNION {[1..n -> Catalogue] : n \in 1..MaxMsgs}

Init ==
  /\ tid = 0 /\ l = 0 /\ ObsInit
  /\ stream \in Streams
  /\ buffered = 0 /\ acted = 0
  /\ pend = [i \in DOMAIN stream |-> EvWire(stream[i])]
  /\ allOk = TRUE

Spec == Init /\ [][Next]_vars

OK == allOk
\* the property stated directly on the model state, at callback boundaries
FramingExact ==
  pend = <<>> =>
    /\ \A i \in 1..acted : SumSize(SubSeq(stream, 1, i)) <= rxOct[R]
    /\ acted < Len(stream) => SumSize(SubSeq(stream, 1, acted + 1)) > rxOct[R]
    /\ buffered = rxOct[R] - SumSize(SubSeq(stream, 1, acted))
=============================================================================

---------------------------- MODULE TcpclAgentObs ----------------------------
(***************************************************************************)
(* Observable behaviour of the TCPCL *agent* object (tcpcl.agent.Agent):   *)
(* the life cycle of connections above the session state machine - listen, *)
(* connect, accept, shutdown (graceful), stop (immediate) - seen from      *)
(* outside: the D-Bus calls and their returns, the connection_opened /     *)
(* connection_closed signals, what get_connections lists, the sockets that *)
(* get closed and the on-stop callback.                                    *)
(*                                                                         *)
(* C09: a termination request at the agent level (shutdown, stop) at any   *)
(*      moment leaves no connection open on either side, and the agent     *)
(*      stops once its sessions have ended.                                *)
(* C18: signals and returns conform to their declared signatures; the      *)
(*      connection listing is exactly what was announced opened and not    *)
(*      yet announced closed; every connection is announced closed once.   *)
(***************************************************************************)
EXTENDS Naturals, Sequences, FiniteSets, TLC, ClauseLib, DbusTypes

VARIABLES opened,     \* [agent -> set of object paths announced by connection_opened]
          closedp,    \* [agent -> set of object paths announced by connection_closed]
          socks,      \* [agent -> set of connection socket ids that are open]
          shutReq,    \* [agent -> BOOLEAN] shutdown() was called
          stopReq,    \* [agent -> BOOLEAN] stop() was called
          nStopped,   \* [agent -> Nat] on-stop callbacks seen
          xstart,     \* [agent -> set of <<path, id>>] transfers announced started (first segment sent)
          xdone       \* [agent -> set of <<path, id>>] transfers announced finished with success

avars == <<tid, l, kfUsed, opened, closedp, socks, shutReq, stopReq, nStopped, xstart, xdone>>
Agents == {"A", "P"}
Other(w) == IF w = "A" THEN "P" ELSE "A"
ToSet(s) == {s[i] : i \in DOMAIN s}
AnyEnd == \E w \in Agents : shutReq[w] \/ stopReq[w]

Clauses(ev) ==
  CASE ev.a = "Sig" -> { C({"C18"}, "SignalConformsToDeclaredSignature", ArgsConform(ev.sigt, ev.tags)) }
    [] ev.a = "Ret" -> { C({"C18"}, "ReturnConformsToDeclaredSignature", ArgsConform(ev.sigt, ev.tags)) }
    [] ev.a = "Opened" ->
        { C({"C18"}, "ConnectionAnnouncedOpenedOnce", ev.path \notin opened[ev.who]) }
    [] ev.a = "Closed" ->
        { C({"C18", "C09"}, "ConnectionAnnouncedClosedOnceAndOnlyAfterOpened",
              ev.path \in opened[ev.who] /\ ev.path \notin closedp[ev.who]) }
    [] ev.a = "Connect" ->
        { C({"C18"}, "ConnectReturnsTheAnnouncedConnection", ev.ok => ev.path \in opened[ev.who]) }
    [] ev.a = "Conns" ->
        { C({"C18"}, "ListingIsOpenedNotYetClosed", ev.ok /\ ToSet(ev.paths) = opened[ev.who] \ closedp[ev.who]) }
    [] ev.a = "Shutdown" ->
        { C({"C09"}, "ShutdownAcceptedAtAnyMoment", ev.ok),
          C({"C09"}, "ImmediateOnlyWhenNothingWasOpen",
              (ev.ok /\ ev.immediate) => socks[ev.who] = {} /\ opened[ev.who] = closedp[ev.who]) }
    [] ev.a = "Stop" ->
        { C({"C09"}, "StopAccepted", ev.ok),
          C({"C09"}, "StopDisconnectsEverySession", socks[ev.who] = {} /\ opened[ev.who] = closedp[ev.who]),
          C({"C09"}, "StopStopsTheAgent", nStopped[ev.who] >= 1) }
    [] ev.a = "Final" ->
        LET w == ev.who IN
        { C({"C18"}, "InternalTableMatchesAnnouncements",
              ToSet(ev.paths) = opened[w] \ closedp[w] /\ ev.handlers = Cardinality(opened[w] \ closedp[w])),
          C({"C09"}, "RequestedEndLeavesNoConnectionOfTheAgentOpen",
              (shutReq[w] \/ stopReq[w]) => (ToSet(ev.open_socks) = {} /\ ev.handlers = 0)),
          C({"C09"}, "AgentStopsOnceItsSessionsEnded", (shutReq[w] \/ stopReq[w]) => ev.stopped >= 1),
          C({"C09"}, "AgentStopsListening", (shutReq[w] \/ stopReq[w]) => ToSet(ev.listening) = {}),
          \* the other side of every connection of an agent that ended must be closed too (nobody half-open);
          \* both agents of a scenario only have connections with each other
          C({"C09"}, "PeerOfAnEndedAgentHoldsNoConnection",
              (shutReq[Other(w)] \/ stopReq[Other(w)]) => ToSet(ev.open_socks) = {}),
          C({"C09"}, "OpenSocketsAreThoseNotSeenClosed", ToSet(ev.open_socks) = socks[w]),
          \* graceful endings only (shutdown of agents, terminate of single sessions; stop() is immediate by
          \* definition): a transfer whose first segment was sent is completed and acknowledged
          C({"C09"}, "TransfersInProgressSurviveGracefulEnding",
              (~stopReq["A"] /\ ~stopReq["P"]) => xstart[w] \subseteq xdone[w]) }
    [] OTHER -> {}

StepOK(ev) == AllOK(Clauses(ev))

Upd(ev) ==
  /\ kfUsed' = kfUsed \cup KfIn(Clauses(ev))
  /\ opened' = IF ev.a = "Opened" THEN [opened EXCEPT ![ev.who] = @ \cup {ev.path}] ELSE opened
  /\ closedp' = IF ev.a = "Closed" THEN [closedp EXCEPT ![ev.who] = @ \cup {ev.path}] ELSE closedp
  /\ socks' = IF ev.a = "SockOpen" THEN [socks EXCEPT ![ev.who] = @ \cup {ev.sock}]
              ELSE IF ev.a = "SockClosed" THEN [socks EXCEPT ![ev.who] = @ \ {ev.sock}] ELSE socks
  /\ shutReq' = IF ev.a = "Shutdown" THEN [shutReq EXCEPT ![ev.who] = TRUE] ELSE shutReq
  /\ stopReq' = IF ev.a = "Stop" THEN [stopReq EXCEPT ![ev.who] = TRUE] ELSE stopReq
  /\ nStopped' = IF ev.a = "Stopped" THEN [nStopped EXCEPT ![ev.who] = @ + 1] ELSE nStopped
  /\ xstart' = IF ev.a = "XferStart" THEN [xstart EXCEPT ![ev.who] = @ \cup {<<ev.path, ev.id>>}] ELSE xstart
  /\ xdone' = IF ev.a = "XferFin" /\ ev.result = "success" THEN [xdone EXCEPT ![ev.who] = @ \cup {<<ev.path, ev.id>>}] ELSE xdone

ObsInit ==
  /\ kfUsed = {}
  /\ opened = [w \in Agents |-> {}] /\ closedp = [w \in Agents |-> {}] /\ socks = [w \in Agents |-> {}]
  /\ shutReq = [w \in Agents |-> FALSE] /\ stopReq = [w \in Agents |-> FALSE] /\ nStopped = [w \in Agents |-> 0]
  /\ xstart = [w \in Agents |-> {}] /\ xdone = [w \in Agents |-> {}]
=============================================================================

----------------------------- MODULE MC_TcpclRx -----------------------------
EXTENDS TcpclRx
B(t, size) == [t |-> t, flags |-> 0, id |-> 0, len |-> 0, reason |-> 0, ka |-> 0, mru |-> 0, mrucls |-> "na",
               xmrucls |-> "na", total |-> -1, nid |-> "", size |-> size, rej |-> 0, ver |-> 4,
               magicok |-> TRUE, nexts |-> 0, typ |-> 0, tok |-> -1]
\* sizes: contact header 6, KEEPALIVE 1, SESS_TERM 3, XFER_SEGMENT with 0 / 2 data octets without START 18 / 20
McCatalogue == {B("CH", 6), B("KA", 1), B("TERM", 3), [B("SEG", 18) EXCEPT !.flags = 0], [B("SEG", 20) EXCEPT !.len = 2]}
=============================================================================

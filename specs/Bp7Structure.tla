---------------------------- MODULE Bp7Structure ----------------------------
(***************************************************************************)
(* RFC 9171 section 4 as a grammar over the *shape* of a bundle (C02):     *)
(* which items the encoded form must consist of, depending on the          *)
(* conditional fields.  A shape is                                         *)
(*   frag  - the bundle is a fragment (two extra primary items)            *)
(*   crcp  - CRC type of the primary block (0: no CRC item)                *)
(*   blocks- sequence of [crc] for the canonical blocks, payload last      *)
(*   admin - payload is an administrative record (status report)           *)
(*   times / rfrag - the status report carries times / fragment fields     *)
(* The skeleton of an encoding (what an independent reader sees) is        *)
(*   [indef, nprimary, items(per block), paylast, payone, unique, srep]    *)
(* Expected(shape) is the skeleton the RFC demands; TLC enumerates all     *)
(* shapes (model mode) and checks the implementation-shaped conditional    *)
(* field rules of the codec against it; the same Expected judges real      *)
(* encodings (trace mode).                                                 *)
(***************************************************************************)
EXTENDS Naturals, Sequences, FiniteSets, TLC, ClauseLib, Json, IOUtils, TLCExt

CrcTypes == 0..2
Bool01(b) == IF b THEN 1 ELSE 0

(* ---------------- the RFC ---------------- *)
Expected(s) ==
  [indef |-> TRUE,
   nprimary |-> 8 + 2 * Bool01(s.frag) + Bool01(s.crcp # 0),
   items |-> [i \in DOMAIN s.blocks |-> 5 + Bool01(s.blocks[i] # 0)],
   paylast |-> TRUE, payone |-> TRUE, unique |-> TRUE,
   \* status report: [status-array(4), reason, source, timestamp (, offset, length)]
   srep |-> IF s.admin THEN 4 + 2 * Bool01(s.rfrag) ELSE 0,
   \* each asserted status item is [TRUE, time] if times were requested, else [TRUE]
   sitem |-> IF s.admin THEN 1 + Bool01(s.times) ELSE 0]

(* ---------------- implementation-shaped: the codec's conditional fields ---------------- *)
CONSTANT Dev
CodeSkeleton(s) ==
  [indef |-> "definite_outer_array" \notin Dev,
   nprimary |-> 8 + (IF s.frag \/ "fragment_fields_unconditional" \in Dev THEN 2 ELSE 0) + Bool01(s.crcp # 0),
   items |-> [i \in DOMAIN s.blocks |-> 5 + Bool01(s.blocks[i] # 0)],
   paylast |-> "new_block_after_payload" \notin Dev, payone |-> TRUE, unique |-> TRUE,
   srep |-> IF s.admin THEN 4 + 2 * Bool01(s.rfrag) ELSE 0,
   sitem |-> IF s.admin THEN 1 + Bool01(s.times \/ "always_include_times" \in Dev) ELSE 0]

Shapes == [frag : BOOLEAN, crcp : CrcTypes, blocks : UNION {[1..n -> CrcTypes] : n \in 1..3},
           admin : BOOLEAN, times : BOOLEAN, rfrag : BOOLEAN]

VARIABLES shape, wire, encoded
MInit == shape \in Shapes /\ wire = <<>> /\ encoded = FALSE /\ tid = 0 /\ l = 0 /\ kfUsed = {}
MNext == ~encoded /\ encoded' = TRUE /\ wire' = CodeSkeleton(shape) /\ UNCHANGED <<shape, tid, l, kfUsed>>
MSpec == MInit /\ [][MNext]_<<shape, wire, encoded, tid, l, kfUsed>>
WellFormed == encoded => wire = Expected(shape)

(* ---------------- trace mode ---------------- *)
Traces == JsonDeserialize(IOEnv.TRACE_FILE)
T == {"C02"}
Clauses(ev) ==
  IF ev.a = "Enc" THEN {
      C(T, "EncodedFormDecodesIndependently", ev.readable),
      C(T, "EncodedFormHasTheRfc9171Structure", ev.readable => ev.skel = Expected(ev.shape)),
      C(T, "NoOtherStructuralProblem", ev.readable => ev.problems = <<>>),
      C(T, "IndependentReaderSeesTheSameFieldValues", ev.readable => ev.indep = ev.want)
    }
  ELSE IF ev.a = "Dec" THEN {
      C(T, "ImplementationDecodesValidEncoding", ev.decoded),
      C(T, "DecodingYieldsTheSameFieldValues", ev.decoded => ev.impl = ev.want),
      C(T, "ReencodingReproducesTheOctets", ev.decoded => ev.same)
    }
  ELSE {}

TraceInit == /\ tid \in 1..Len(Traces) /\ l = 1 /\ kfUsed = {} /\ shape = <<>> /\ wire = <<>> /\ encoded = FALSE /\ TLCSet(tid, 1)
TraceNext ==
  /\ l <= Len(Traces[tid])
  /\ LET ev == Traces[tid][l] IN AllOK(Clauses(ev)) /\ kfUsed' = kfUsed \cup KfIn(Clauses(ev))
  /\ l' = l + 1 /\ tid' = tid /\ UNCHANGED <<shape, wire, encoded>>
  /\ TLCSet(tid, l + 1)
  /\ (l + 1 > Len(Traces[tid]) => PrintT(<<"DONE", tid, kfUsed'>>))
TraceSpec == TraceInit /\ [][TraceNext]_<<tid, l, kfUsed, shape, wire, encoded>>
TraceReport == \A t \in 1..Len(Traces) : PrintT(<<"REACHED", t, TLCGet(t), Len(Traces[t])>>)
=============================================================================

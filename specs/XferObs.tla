------------------------------- MODULE XferObs -------------------------------
(***************************************************************************)
(* Observable behaviour of a datagram convergence layer that may cut a     *)
(* bundle into pieces - UDPCL transfer segments (C13) and BTP-U transfer   *)
(* segments (C20) - seen from outside: send requests, the datagrams /      *)
(* frames the sender emits (decoded by an independent reader), their       *)
(* arrival at a receiving agent in any order, and what the receiver        *)
(* queues for its user.  The D-Bus signals of both agents are checked      *)
(* against their declared signatures (C18).                                *)
(***************************************************************************)
EXTENDS Naturals, Integers, Sequences, FiniteSets, TLC, ClauseLib, DbusTypes, Json, IOUtils, TLCExt

VARIABLES scen,
          req,       \* [x -> [total, dig]] send requests by transfer key
          pieces,    \* [x -> Seq(piece)] what the sender emitted for x
          cov,       \* [x -> SUBSET Nat] payload offsets that have arrived at the receiver
          queued,    \* Seq([len, dig]) what the receiver announced / handed to its user
          done,      \* transfers the sender reported finished
          hung,      \* the sender did not return from a callback (watchdog)
          announced, \* receive-side ids announced by recv_bundle_finished
          popped     \* receive-side ids whose data the user has taken

xvars == <<tid, l, kfUsed, scen, req, pieces, cov, queued, done, hung, announced, popped>>
Ext(f, k, v) == [y \in DOMAIN f \cup {k} |-> IF y = k THEN v ELSE f[y]]
Whole(t) == 0..(t - 1)
Tag == {scen.prop}

PiecesTile(ps, total) ==
  IF \E i \in DOMAIN ps : ps[i].kind = "whole"
  THEN Len(ps) = 1 /\ ps[1].len = total
  ELSE /\ \A i \in DOMAIN ps : ps[i].total = total /\ ps[i].off + ps[i].len <= total /\ ps[i].len > 0
       /\ \A i, j \in DOMAIN ps : i # j => (ps[i].off + ps[i].len <= ps[j].off \/ ps[j].off + ps[j].len <= ps[i].off)
       /\ \A i \in DOMAIN ps : ps[i].off = 0 \/ \E j \in DOMAIN ps : ps[j].off + ps[j].len = ps[i].off
       /\ (total > 0 => \E i \in DOMAIN ps : ps[i].off + ps[i].len = total)

Clauses(ev) ==
  CASE ev.a = "Piece" ->
        LET known == ev.x \in DOMAIN req IN {
          CK(Tag, "EveryDatagramWithinMtu", scen.mtu >= 0 => ev.size <= scen.mtu,
             "mtu_below_envelope_never_terminates", scen.mtu >= 0 /\ scen.mtu <= scen.minenv),
          C(Tag, "PieceBelongsToARequestedTransfer", known),
          C(Tag, "PieceCarriesTheRightSliceOfTheOriginal", ev.dataok),
          C(Tag, "DeclaredLengthsEqualActualLengths", ev.lensok),
          C(Tag, "SegmentFieldsConsistent",
              (known /\ ev.kind = "seg") => ev.total = req[ev.x].total /\ ev.off + ev.len <= ev.total),
          C(Tag, "SegmentIndexCountsUp",
              (known /\ ev.kind = "seg" /\ ev.idx >= 0) => ev.idx = (IF ev.x \in DOMAIN pieces THEN Len(pieces[ev.x]) ELSE 0)),
          C(Tag, "EndMarksExactlyTheLastSegment",
              (known /\ ev.kind = "seg" /\ ev.idx >= 0) => (ev.last <=> (ev.off + ev.len = req[ev.x].total))),
          C(Tag, "ReencodingReproducesTheFrame", ev.reenc)
        }
    [] ev.a = "SendDone" ->
        { C(Tag, "PiecesCarryEveryOctetExactlyOnce",
              (ev.x \in DOMAIN req) => (ev.x \in DOMAIN pieces /\ PiecesTile(pieces[ev.x], req[ev.x].total))) }
    [] ev.a = "Queued" ->
        {
          C(Tag, "QueuedBundleEqualsAnOriginal", \E x \in DOMAIN req : req[x].dig = ev.dig /\ req[x].total = ev.len),
          C(Tag, "NothingQueuedWhileOctetsMissing",
              \E x \in DOMAIN req : req[x].dig = ev.dig /\ x \in DOMAIN cov /\ cov[x] = Whole(req[x].total))
        }
    [] ev.a = "RxQueue" ->
        { C({"C18"}, "ReceiveQueueListsAnnouncedNotYetPopped", {ev.ids[i] : i \in DOMAIN ev.ids} = announced \ popped) }
    \* (the application pops late: something that was announced is no longer in the queue)
    [] ev.a = "PopFailed" ->
        { C(Tag \cup {"C18"}, "AnnouncedBundleCanBePopped", FALSE) }
    [] ev.a = "PopAgain" ->
        { C({"C18"}, "PoppingReturnsTheDataExactlyOnce", ~ev.gave_data) }
    [] ev.a = "Sig" ->
        { C({"C18"}, "SignalConformsToDeclaredSignature", ArgsConform(ev.sigt, ev.tags)) }
    [] ev.a = "Final" ->
        {
          CK(Tag, "EveryRequestedTransferWasEmitted",
              \A x \in DOMAIN req : x \in DOMAIN pieces /\ PiecesTile(pieces[x], req[x].total),
              "mtu_below_envelope_never_terminates", hung /\ scen.mtu >= 0 /\ scen.mtu <= scen.minenv),
          CK(Tag, "SenderCallbacksTerminate", ~hung,
              "mtu_below_envelope_never_terminates", scen.mtu >= 0 /\ scen.mtu <= scen.minenv),
          C(Tag, "CompletelyArrivedTransfersAreQueued",
              \A x \in DOMAIN req : (x \in DOMAIN cov /\ cov[x] = Whole(req[x].total) /\ req[x].total > 0)
                                      => \E i \in DOMAIN queued : queued[i].dig = req[x].dig),
          C(Tag, "ExactlyOneCopyWhenEachSegmentArrivesOnce",
              scen.once => \A x \in DOMAIN req :
                  Cardinality({i \in DOMAIN queued : queued[i].dig = req[x].dig}) <= 1),
          C(Tag, "IncompleteTransfersAreNotQueued",
              \A x \in DOMAIN req : (x \notin DOMAIN cov \/ cov[x] # Whole(req[x].total))
                                      => ~\E i \in DOMAIN queued : queued[i].dig = req[x].dig)
        }
    [] OTHER -> {}

Upd(ev) ==
  /\ kfUsed' = kfUsed \cup KfIn(Clauses(ev))
  /\ scen' = IF ev.a = "Scenario" THEN ev.s ELSE scen
  /\ req' = IF ev.a = "Request" THEN Ext(req, ev.x, [total |-> ev.total, dig |-> ev.dig]) ELSE req
  /\ pieces' = IF ev.a = "Piece"
               THEN Ext(pieces, ev.x, Append(IF ev.x \in DOMAIN pieces THEN pieces[ev.x] ELSE <<>>,
                                             [kind |-> ev.kind, off |-> ev.off, len |-> ev.len, total |-> ev.total]))
               ELSE pieces
  /\ cov' = IF ev.a = "Arrive"
            THEN Ext(cov, ev.x, (IF ev.x \in DOMAIN cov THEN cov[ev.x] ELSE {}) \cup (ev.off..(ev.off + ev.len - 1)))
            ELSE cov
  /\ queued' = IF ev.a = "Queued" THEN Append(queued, [len |-> ev.len, dig |-> ev.dig]) ELSE queued
  /\ done' = IF ev.a = "SendDone" THEN done \cup {ev.x} ELSE done
  /\ hung' = (hung \/ ev.a = "Hang")
  /\ announced' = IF ev.a = "Announced" THEN announced \cup {ev.bid} ELSE announced
  /\ popped' = IF ev.a = "Popped" THEN popped \cup {ev.bid} ELSE popped

Traces == JsonDeserialize(IOEnv.TRACE_FILE)
TraceInit ==
  /\ tid \in 1..Len(Traces) /\ l = 1 /\ kfUsed = {}
  /\ scen = [prop |-> "C13", mtu |-> -1, once |-> FALSE, minenv |-> 0]
  /\ req = <<>> /\ pieces = <<>> /\ cov = <<>> /\ queued = <<>> /\ done = {} /\ hung = FALSE
  /\ announced = {} /\ popped = {}
  /\ TLCSet(tid, 1)
TraceNext ==
  /\ l <= Len(Traces[tid])
  /\ LET ev == Traces[tid][l] IN AllOK(Clauses(ev)) /\ Upd(ev)
  /\ l' = l + 1 /\ tid' = tid
  /\ TLCSet(tid, l + 1)
  /\ (l + 1 > Len(Traces[tid]) => PrintT(<<"DONE", tid, kfUsed'>>))
TraceSpec == TraceInit /\ [][TraceNext]_xvars
TraceReport == \A t \in 1..Len(Traces) : PrintT(<<"REACHED", t, TLCGet(t), Len(Traces[t])>>)
=============================================================================

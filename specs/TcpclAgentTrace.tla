--------------------------- MODULE TcpclAgentTrace ---------------------------
(* Validation of recorded executions of two real tcpcl.agent.Agent objects against TcpclAgentObs. *)
EXTENDS TcpclAgentObs, Json, IOUtils, TLCExt

Traces == JsonDeserialize(IOEnv.TRACE_FILE)

TraceInit ==
  /\ tid \in 1..Len(Traces)
  /\ l = 1
  /\ ObsInit
  /\ TLCSet(tid, 1)

TraceNext ==
  /\ l <= Len(Traces[tid])
  /\ LET ev == Traces[tid][l] IN StepOK(ev) /\ Upd(ev)
  /\ l' = l + 1
  /\ tid' = tid
  /\ TLCSet(tid, l + 1)
  /\ (l + 1 > Len(Traces[tid]) => PrintT(<<"DONE", tid, kfUsed'>>))

TraceSpec == TraceInit /\ [][TraceNext]_avars
TraceReport == \A t \in 1..Len(Traces) : PrintT(<<"REACHED", t, TLCGet(t), Len(Traces[t])>>)
=============================================================================

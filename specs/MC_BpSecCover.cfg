SPECIFICATION MSpec
CONSTANTS
  Dev = {}
  Enforced = {}
  Known = {}
  Diag = FALSE
INVARIANT VerifyIffUnaltered
CHECK_DEADLOCK FALSE

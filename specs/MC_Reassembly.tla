---------------------------- MODULE MC_Reassembly ----------------------------
EXTENDS Reassembly
P(o, n) == [off |-> o, len |-> n]
McKeys == {"k1", "k2"}
McTotal == [k1 |-> 6, k2 |-> 5]
\* k1: uneven cut with an overlapping extra piece; k2: uniform cut
McPieces == [k1 |-> <<P(0, 1), P(1, 3), P(4, 2), P(2, 3)>>, k2 |-> <<P(0, 2), P(2, 2), P(4, 1)>>]
=============================================================================

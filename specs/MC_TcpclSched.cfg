SPECIFICATION SSpec
CONSTANTS
  Lens <- McLens
  MaxSend <- McMaxSend
  SegMru <- McSegMru
  SegInit <- McSegInit
  Quanta <- McQuanta
  AllowTerm <- McAllowTerm
  AllowClose <- McAllowClose
  AllowPop = TRUE
  Adv = {}
  AdvMoves = {}
  MaxAdv = 0
  Dev = {"zero_length_stuck", "start_after_term", "close_drops_socket_buffer", "close_before_peer_term"}
  Enforced = {}
  Known = {}
  Diag = FALSE
  Depth = 120
CONSTRAINT SConstraint
CHECK_DEADLOCK FALSE

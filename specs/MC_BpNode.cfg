SPECIFICATION Spec
CONSTANTS
  Node <- NodeId
  Probe <- ProbeId
  Catalogue <- McCatalogue
  RxTable <- McRx
  TxTable <- McTx
  MaxRecv = 3
  Dev = {}
  Enforced = {"C08", "C10", "C11", "C12", "C19"}
  Known = {}
  Diag = FALSE
INVARIANT OK
INVARIANT QuiescentOK
CHECK_DEADLOCK FALSE

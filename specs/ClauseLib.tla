------------------------------ MODULE ClauseLib ------------------------------
(***************************************************************************)
(* Property clauses as data.  A specification lists, for every observable  *)
(* event, the clauses the event must satisfy; each clause carries the ids  *)
(* of the properties it states (tags), a name, its truth value, and the    *)
(* name of a known finding that may excuse it ("" if none).                *)
(*                                                                         *)
(*   Enforced  - property ids whose clauses are enforced in this run       *)
(*   Known     - known-finding names accepted as excuses (listed in        *)
(*               /verif/known_findings.json with status "known")           *)
(*   Diag      - print the name of every failed enforced clause            *)
(*                                                                         *)
(* tid, l are the trace cursor (0, 0 in model mode); kfUsed collects the   *)
(* known findings that actually excused something.                         *)
(***************************************************************************)
EXTENDS TLC

CONSTANTS Enforced, Known, Diag
VARIABLES tid, l, kfUsed

C(tags, name, ok) == [tags |-> tags, name |-> name, ok |-> ok, kf |-> ""]
CK(tags, name, ok, kf, kfcond) == [tags |-> tags, name |-> name, ok |-> ok, kf |-> IF kfcond THEN kf ELSE ""]

Applies(c) == c.tags \cap Enforced # {}
Holds(c) == c.ok \/ (c.kf # "" /\ c.kf \in Known)
Report(c) == IF Diag THEN PrintT(<<"FAILCLAUSE", tid, l, c.name>>) ELSE TRUE
\* written with IF so that TLC evaluates it as a predicate (a disjunction inside an action
\* would be explored as two alternatives and the report printed for clauses that hold)
ClauseOK(c) == IF ~Applies(c) THEN TRUE ELSE IF Holds(c) THEN TRUE ELSE (Report(c) /\ FALSE)
AllOK(cs) == (\A c \in cs : ClauseOK(c)) = TRUE
AllHold(cs) == \A c \in cs : Applies(c) => Holds(c)
KfIn(cs) == {c.kf : c \in {d \in cs : Applies(d) /\ ~d.ok /\ d.kf # "" /\ d.kf \in Known}}
=============================================================================

SPECIFICATION Spec
CONSTANTS
  Dev = {}
INVARIANT PolicyHolds
CHECK_DEADLOCK FALSE

-------------------------------- MODULE BpNode --------------------------------
(***************************************************************************)
(* Implementation-shaped model of bp.agent.Agent: recv_bundle (CRC gate,   *)
(* own-source filter, seen-identity filter, receive chain: administrative  *)
(* routing, static first-match routing, security verification, delivery    *)
(* to applications), the deferred callbacks (_do_fwd, send_bundle of       *)
(* status reports) and create_report.  Bundles are the abstract records    *)
(* the trace projection produces; the catalogue of received bundles and    *)
(* the routing tables are constants.  Observable sub-events are drained    *)
(* through the observer BpObs (same clauses as for recorded executions).   *)
(* Fragmentation and reassembly are modelled in SegSizing / Reassembly.    *)
(***************************************************************************)
EXTENDS BpObs

CONSTANTS Node, Probe,
          Catalogue,    \* set of abstract bundles that may arrive (any number of times)
          RxTable,      \* Seq of <<prefix set, action>>: a destination matches if it is in the set
          TxTable,      \* Seq of destination sets with a route (no MTU here)
          MaxRecv,
          Dev

VARIABLES seen, idleQ, nRecv, pend, allOk
nvars == <<seen, idleQ, nRecv, pend, allOk>>
vars == <<bvars, nvars>>

RxEval(dest) == [i \in DOMAIN RxTable |-> <<dest \in RxTable[i][1], RxTable[i][2]>>]
TxEval(dest) == [i \in DOMAIN TxTable |-> <<dest \in TxTable[i], -1>>]
HasTx(dest) == \E i \in DOMAIN TxTable : dest \in TxTable[i]

\* _do_rx_step: the code's route choice (deviation: keep looping, i.e. last match wins)
RouteOf(dest) ==
  LET hits == {i \in DOMAIN RxTable : dest \in RxTable[i][1]} IN
  IF hits = {} THEN "none"
  ELSE IF "route_last_match" \in Dev THEN RxTable[CHOOSE i \in hits : \A j \in hits : j <= i][2]
       ELSE RxTable[CHOOSE i \in hits : \A j \in hits : i <= j][2]

EvRecv(b) == [a |-> "Recv", b |-> b, corrupt |-> FALSE, encbib |-> FALSE, rx |-> RxEval(b.dest), tx |-> TxEval(b.dest), own |-> b.src = Node,
              admin |-> b.dest = Node, appdest |-> FALSE, sec |-> b.sec, plain |-> "", nsec |-> 0,
              idle0 |-> Len(idleQ), btypes |-> <<>>, rptroute |-> HasTx(b.rpt)]
EvBoundary(n, nseen, nidle) == [a |-> "Boundary", n |-> n, seen |-> nseen, idle |-> nidle]
EvConsume(b) == [a |-> "Consume", app |-> "probe", base |-> b.base, dest |-> b.dest, paylen |-> b.paylen, pay |-> b.pay,
                 isfrag |-> b.isfrag, btypes |-> <<>>, sec_left |-> 0]
EvClOut(b) == [a |-> "ClOut", b |-> b, mtu |-> -1, agedelta |-> 0, fragok |-> TRUE, fx |-> -1]

\* create_report: one report with every requested action recorded so far
ReportFor(b, acts, reason) ==
  LET req == {a \in acts : Has(b, ReqFlag(a))}
      SortedSeq(S) == LET RECURSIVE F(_)
                          F(T) == IF T = {} THEN <<>>
                                  ELSE LET x == CHOOSE y \in T : \A z \in T : \/ y = z
                                                                              \/ (y = "deleted")
                                                                              \/ (y = "delivered" /\ z # "deleted")
                                                                              \/ (y = "forwarded" /\ z \notin {"deleted", "delivered"})
                                       IN <<x>> \o F(T \ {x})
                      IN F(S)
  IN [ok |-> TRUE, wf |-> TRUE, crcok |-> TRUE, id |-> "rpt|" \o b.id, base |-> "rpt|" \o b.id, src |-> Node,
      dest |-> IF "report_to_source" \in Dev THEN b.src ELSE b.rpt, rpt |-> "dtn:none",
      flags |-> <<"ADMIN">>, isfrag |-> FALSE, off |-> -1, total |-> -1, ver |-> 7, crcp |-> 2, prim |-> "",
      paylen |-> 10, pay |-> "", blocks |-> <<>>, size |-> 50, problems |-> <<>>, tsnz |-> TRUE,
      report |-> <<[bad |-> "", subj |-> b.base, reason |-> reason, asserted |-> SortedSeq(req),
                    timed |-> IF Has(b, "TIME") THEN SortedSeq(req) ELSE <<>>, hasfrag |-> FALSE]>>]
WantsReport(b, acts) == b.rpt # "dtn:none" /\ \E a \in acts : Has(b, ReqFlag(a))

\* _do_fwd: what leaves the node
NextNum(blocks) == CHOOSE n \in 2..(Len(blocks) + 3) : \A i \in DOMAIN blocks : blocks[i].num # n
Forwarded(b) ==
  LET keep == SelectSeq(b.blocks, LAMBDA x : x.kind \notin {"prev", "age"} /\ x.type # 1)
      bump == [i \in DOMAIN keep |-> IF keep[i].kind = "hop" /\ "stale_hop_count" \notin Dev
                                      THEN [keep[i] EXCEPT !.count = @ + 1] ELSE keep[i]]
      pay == SelectSeq(b.blocks, LAMBDA x : x.type = 1)
      pn == NextNum(b.blocks)
      prev == [type |-> 6, num |-> pn, flags |-> 0, crc |-> 0, crcok |-> TRUE, crcfield |-> FALSE, kind |-> "prev",
               eid |-> Node, limit |-> -1, count |-> -1, age |-> -1, dig |-> "prev", len |-> 1]
      an == CHOOSE n \in 2..(Len(b.blocks) + 4) : n # pn /\ \A i \in DOMAIN b.blocks : b.blocks[i].num # n
      ageb == [prev EXCEPT !.type = 7, !.num = an, !.kind = "age", !.eid = "", !.age = 0, !.dig = "age"]
  IN [b EXCEPT !.blocks = bump \o <<prev>> \o (IF b.tsnz THEN <<ageb>> ELSE <<>>) \o pay]

Idle == pend = <<>>

\* recv_bundle
ClRecv(b) ==
  /\ Idle /\ nRecv < MaxRecv
  /\ nRecv' = nRecv + 1
  /\ LET bad == ~b.crcok /\ "crc_not_checked" \notin Dev
         own == b.src = Node /\ "no_own_filter" \notin Dev
         dup == b.id \in seen
         act == IF b.dest = Node THEN "deliver" ELSE RouteOf(b.dest)
         secfail == act = "deliver" /\ b.sec = "bad" /\ "security_fail_open" \notin Dev
         eff == IF secfail THEN "delete" ELSE act
         consume == eff = "deliver" /\ b.dest = Probe /\ ~b.isfrag
         acts == {"received"} \cup (IF eff = "deliver" THEN {"delivered"} ELSE IF eff = "delete" THEN {"deleted"} ELSE {})
         report == eff \in {"deliver", "delete"} /\ WantsReport(b, acts)
         idle1 == IF eff = "forward" THEN Append(idleQ, [k |-> "fwd", b |-> b])
                  ELSE IF report THEN Append(idleQ, [k |-> "send", b |-> ReportFor(b, acts, IF secfail THEN 15 ELSE 0)])
                  ELSE idleQ
     IN IF bad \/ own \/ dup
        THEN /\ pend' = <<EvRecv(b), EvBoundary("recv", Cardinality(seen), Len(idleQ))>>
             /\ UNCHANGED <<seen, idleQ>>
        ELSE /\ seen' = seen \cup {b.id}
             /\ idleQ' = idle1
             /\ pend' = <<EvRecv(b)>> \o (IF consume THEN <<EvConsume(b)>> ELSE <<>>)
                        \o <<EvBoundary("recv", Cardinality(seen) + 1, Len(idle1))>>
  /\ UNCHANGED <<allOk, bvars>>

\* a deferred callback
RunIdle ==
  /\ Idle /\ idleQ # <<>>
  /\ LET it == Head(idleQ)  rest == Tail(idleQ) IN
     IF it.k = "fwd"
     THEN LET b == it.b
              ok == HasTx(b.dest)
              acts == {"received"} \cup (IF ok THEN {"forwarded"} ELSE {"deleted"})
              report == WantsReport(b, acts)
              q == IF report THEN Append(rest, [k |-> "send", b |-> ReportFor(b, acts, IF ok THEN 0 ELSE 6)]) ELSE rest
          IN /\ idleQ' = q
             /\ pend' = (IF ok THEN <<EvClOut(Forwarded(b))>> ELSE <<>>)
                        \o <<EvBoundary("_do_fwd", Cardinality(seen), Len(q))>>
     ELSE /\ idleQ' = rest
          /\ pend' = (IF HasTx(it.b.dest) THEN <<EvClOut(it.b)>> ELSE <<>>)
                     \o <<EvBoundary("send_bundle", Cardinality(seen), Len(rest))>>
  /\ UNCHANGED <<seen, nRecv, allOk, bvars>>

Drain ==
  /\ pend # <<>>
  /\ LET ev == Head(pend) IN
       /\ allOk' = (allOk /\ AllHold(Clauses(ev)))
       /\ Upd(ev)
       /\ tid' = tid /\ l' = l
  /\ pend' = Tail(pend)
  /\ UNCHANGED <<seen, idleQ, nRecv>>

Next == Drain \/ RunIdle \/ \E b \in Catalogue : ClRecv(b)

Init ==
  /\ tid = 0 /\ l = 0 /\ ObsInit
  /\ seen = {} /\ idleQ = <<>> /\ nRecv = 0 /\ allOk = TRUE
  /\ pend = <<[a |-> "Scenario", s |-> [node |-> Node, kind |-> "bp", accept |-> FALSE, probe |-> Probe, orig |-> <<>>]]>>

Spec == Init /\ [][Next]_vars
OK == allOk
Quiescent == pend = <<>> /\ idleQ = <<>>
QuiescentOK == Quiescent => AllHold(Clauses([a |-> "Final"]))
=============================================================================

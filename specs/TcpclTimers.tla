----------------------------- MODULE TcpclTimers -----------------------------
(***************************************************************************)
(* Keepalive and idle timers of an established TCPCL session (C14), as the *)
(* Messenger implements them: _keepalive_reset on every send_message,      *)
(* _idle_reset on every send_message and every recv_raw, _keepalive_timeout*)
(* sends KEEPALIVE, _idle_timeout starts termination with reason           *)
(* idle-timeout or, if already terminating, closes.  Time is virtual and   *)
(* advances (Tick) only when nothing else can run - the discipline of the  *)
(* conformance driver (scenario flag flush).                               *)
(*                                                                         *)
(* The model starts from an established session (the handshake is replayed *)
(* into the observer as initial sub-events) and lets either user send      *)
(* single-segment transfers at any time; ends in Silent never read.        *)
(***************************************************************************)
EXTENDS TcpclObs

CONSTANTS KaCfg, IdleCfg,   \* [Ends -> Nat] configured keepalive / idle seconds
          MaxClock, MaxSends,
          Silent,           \* ends whose implementation is replaced by a peer that never reads or answers
          UserTerms,        \* ends whose user may ask for termination at any moment
          Dev

VARIABLES clock, kaDue, idleDue, inTerm, gotTerm, isOpen, flight, nSends, nextId, pend, allOk
tvars == <<clock, kaDue, idleDue, inTerm, gotTerm, isOpen, flight, nSends, nextId, pend, allOk>>
vars == <<ovars, tvars>>

OFF == -1
Base(t, size) == [t |-> t, flags |-> 0, id |-> 0, len |-> 0, reason |-> 0, ka |-> 0, mru |-> 100, mrucls |-> "u8",
                  xmrucls |-> "u64", total |-> NONE, nid |-> "", size |-> size, rej |-> 0, ver |-> 4,
                  magicok |-> TRUE, nexts |-> 0, typ |-> 0, tok |-> NONE]
MinKa == IF "keepalive_max" \in Dev
         THEN (IF KaCfg["A"] > KaCfg["P"] THEN KaCfg["A"] ELSE KaCfg["P"])
         ELSE (IF KaCfg["A"] < KaCfg["P"] THEN KaCfg["A"] ELSE KaCfg["P"])
T == clock * 1000
EvCb(e, name) == [a |-> "Cb", e |-> e, n |-> name, t |-> T]
EvWire(e, m) == [a |-> "Wire", e |-> e, n |-> m.t, m |-> m, t |-> T]
EvRx(e, k) == [a |-> "Rx", e |-> e, n |-> "", i |-> [k |-> k], t |-> T]
EvHandle(e, m, idx, cum) == [a |-> "Handle", e |-> e, n |-> m.t, m |-> m, i |-> [idx |-> idx, cum |-> cum], t |-> T]
EvClosed(e) == [a |-> "Closed", e |-> e, n |-> "", t |-> T]
EvEscape(e) == [a |-> "Escape", e |-> e, n |-> "idle", i |-> [user |-> FALSE, kf |-> "", exc |-> "RuntimeError"], t |-> T]

MCh == Base("CH", 6)
MInit(e) == [Base("INIT", 31) EXCEPT !.ka = KaCfg[e], !.nid = e]
Handshake == <<
  EvWire("A", MCh), EvRx("P", 6), EvHandle("P", MCh, 1, 6), EvWire("P", MCh), EvRx("A", 6), EvHandle("A", MCh, 1, 6),
  EvWire("A", MInit("A")), EvRx("P", 31), EvHandle("P", MInit("A"), 2, 37),
  EvWire("P", MInit("P")), EvRx("A", 31), EvHandle("A", MInit("P"), 2, 37) >>

Arm(due, secs) == IF secs > 0 THEN clock + secs ELSE OFF
Real(e) == e \notin Silent

\* send_message by e: message goes on the wire at once (driver flushes), both timers of e re-armed
Send0(e, m, evs) ==
  /\ pend' = evs \o <<EvWire(e, m)>>
  /\ kaDue' = [kaDue EXCEPT ![e] = Arm(@, MinKa)]
  /\ idleDue' = [idleDue EXCEPT ![e] = Arm(@, IdleCfg[e])]

Send(e, m, evs) == Send0(e, m, evs) /\ flight' = [flight EXCEPT ![e] = Append(@, m)]

Idle == pend = <<>>

UserSend(e) ==
  /\ Idle /\ Real(e) /\ isOpen[e] /\ ~inTerm[e] /\ nSends < MaxSends
  /\ Send(e, [Base("SEG", 35) EXCEPT !.flags = 3, !.id = nextId[e], !.total = 0], <<EvCb(e, "send")>>)
  /\ nSends' = nSends + 1 /\ nextId' = [nextId EXCEPT ![e] = @ + 1]
  /\ UNCHANGED <<clock, inTerm, gotTerm, isOpen, allOk, ovars>>

\* (deviation keepalive_postpones_closing: the KEEPALIVE of a terminating endpoint re-arms its idle timer like any
\* other transmission, so with 0 < keepalive < idle time it never closes on a silent peer)
KaFire(e) ==
  /\ Idle /\ Real(e) /\ isOpen[e] /\ kaDue[e] = clock
  /\ pend' = <<EvCb(e, "ka"), EvWire(e, Base("KA", 1))>>
  /\ kaDue' = [kaDue EXCEPT ![e] = Arm(@, MinKa)]
  /\ idleDue' = (IF inTerm[e] /\ "keepalive_postpones_closing" \notin Dev THEN idleDue
                 ELSE [idleDue EXCEPT ![e] = Arm(@, IdleCfg[e])])
  /\ flight' = [flight EXCEPT ![e] = Append(@, Base("KA", 1))]
  /\ UNCHANGED <<clock, inTerm, gotTerm, isOpen, nSends, nextId, allOk, ovars>>

\* the user asks the session to terminate
UserTerm(e) ==
  /\ Idle /\ Real(e) /\ isOpen[e] /\ ~inTerm[e] /\ e \in UserTerms
  /\ Send(e, Base("TERM", 3), <<EvCb(e, "terminate"), [a |-> "UserTerm", e |-> e, n |-> "", t |-> T, i |-> [ok |-> TRUE]]>>)
  /\ inTerm' = [inTerm EXCEPT ![e] = TRUE]
  /\ UNCHANGED <<clock, gotTerm, isOpen, nSends, nextId, allOk, ovars>>

IdleFire(e) ==
  /\ Idle /\ Real(e) /\ isOpen[e] /\ idleDue[e] = clock
  /\ IF inTerm[e]
     THEN IF "idle_while_terminating_raises" \in Dev
          THEN /\ pend' = <<EvCb(e, "idle"), EvEscape(e)>>
               /\ idleDue' = [idleDue EXCEPT ![e] = OFF]
               /\ UNCHANGED <<isOpen, kaDue, flight, inTerm>>
          ELSE /\ pend' = <<EvCb(e, "idle"), EvClosed(e)>>
               /\ isOpen' = [isOpen EXCEPT ![e] = FALSE]
               /\ idleDue' = [idleDue EXCEPT ![e] = OFF] /\ kaDue' = [kaDue EXCEPT ![e] = OFF]
               /\ UNCHANGED <<flight, inTerm>>
     ELSE /\ Send(e, [Base("TERM", 3) EXCEPT !.reason = IF "idle_reason_unknown" \in Dev THEN 0 ELSE 1],
                  <<EvCb(e, "idle")>>)
          /\ inTerm' = [inTerm EXCEPT ![e] = TRUE]
          /\ UNCHANGED isOpen
  /\ UNCHANGED <<clock, gotTerm, nSends, nextId, allOk, ovars>>

\* recv_raw at e of the next message in flight from the peer
Deliver(e) ==
  LET p == Peer(e) IN
  /\ Idle /\ Real(e) /\ isOpen[e] /\ flight[p] # <<>>
  /\ LET m == Head(flight[p])
         evs == <<EvCb(e, "rx"), EvRx(e, m.size), EvHandle(e, m, nH[e] + 1, hCum[e] + m.size)>>
         idleNew == IF "no_idle_reset_on_rx" \in Dev THEN idleDue[e] ELSE Arm(idleDue[e], IdleCfg[e])
     IN
     CASE m.t = "SEG" ->
            /\ Send0(e, [Base("ACK", 18) EXCEPT !.flags = m.flags, !.id = m.id], evs)
            /\ flight' = [flight EXCEPT ![p] = Tail(@), ![e] = Append(@, [Base("ACK", 18) EXCEPT !.flags = m.flags, !.id = m.id])]
            /\ UNCHANGED <<inTerm, gotTerm, isOpen>>
       [] m.t = "TERM" ->
            IF inTerm[e]
            THEN \* both SESS_TERMs exchanged and nothing pending: close
                 /\ pend' = evs \o <<EvClosed(e)>>
                 /\ isOpen' = [isOpen EXCEPT ![e] = FALSE]
                 /\ kaDue' = [kaDue EXCEPT ![e] = OFF] /\ idleDue' = [idleDue EXCEPT ![e] = OFF]
                 /\ flight' = [flight EXCEPT ![p] = Tail(@)]
                 /\ gotTerm' = [gotTerm EXCEPT ![e] = TRUE]
                 /\ UNCHANGED inTerm
            ELSE /\ Send0(e, [Base("TERM", 3) EXCEPT !.flags = 1, !.reason = m.reason], evs)
                 /\ flight' = [flight EXCEPT ![p] = Tail(@), ![e] = Append(@, [Base("TERM", 3) EXCEPT !.flags = 1, !.reason = m.reason])]
                 /\ inTerm' = [inTerm EXCEPT ![e] = TRUE] /\ gotTerm' = [gotTerm EXCEPT ![e] = TRUE]
                 /\ UNCHANGED isOpen
       [] OTHER ->
            /\ pend' = evs
            /\ flight' = [flight EXCEPT ![p] = Tail(@)]
            /\ idleDue' = [idleDue EXCEPT ![e] = idleNew]
            /\ UNCHANGED <<kaDue, inTerm, gotTerm, isOpen>>
  /\ UNCHANGED <<clock, nSends, nextId, allOk, ovars>>

\* the peer closed: EOF
Eof(e) ==
  LET p == Peer(e) IN
  /\ Idle /\ Real(e) /\ isOpen[e] /\ ~isOpen[p] /\ flight[p] = <<>>
  /\ pend' = <<EvCb(e, "rx"), EvClosed(e)>>
  /\ isOpen' = [isOpen EXCEPT ![e] = FALSE]
  /\ kaDue' = [kaDue EXCEPT ![e] = OFF] /\ idleDue' = [idleDue EXCEPT ![e] = OFF]
  /\ UNCHANGED <<clock, inTerm, gotTerm, flight, nSends, nextId, allOk, ovars>>

Busy == \E e \in Ends : ENABLED Deliver(e) \/ ENABLED Eof(e) \/ ENABLED KaFire(e) \/ ENABLED IdleFire(e)
Tick ==
  /\ Idle /\ ~Busy /\ clock < MaxClock
  /\ clock' = clock + 1
  /\ UNCHANGED <<kaDue, idleDue, inTerm, gotTerm, isOpen, flight, nSends, nextId, pend, allOk, ovars>>

Drain ==
  /\ pend # <<>>
  /\ LET ev == Head(pend) IN
       /\ allOk' = (allOk /\ AllHold(Clauses(ev)))
       /\ Upd(ev)
       /\ tid' = tid /\ l' = l
  /\ pend' = Tail(pend)
  /\ UNCHANGED <<clock, kaDue, idleDue, inTerm, gotTerm, isOpen, flight, nSends, nextId>>

Next == Drain \/ Tick \/ \E e \in Ends : UserSend(e) \/ UserTerm(e) \/ KaFire(e) \/ IdleFire(e) \/ Deliver(e) \/ Eof(e)

RealSeq == IF Silent = {} THEN <<"A", "P">> ELSE IF Silent = {"A"} THEN <<"P">> ELSE <<"A">>
Init ==
  /\ tid = 0 /\ l = 0
  /\ ObsInitWith(RealSeq)
  /\ clock = 0
  /\ kaDue = [e \in Ends |-> IF MinKa > 0 THEN MinKa ELSE OFF]
  /\ idleDue = [e \in Ends |-> IF IdleCfg[e] > 0 THEN IdleCfg[e] ELSE OFF]
  /\ inTerm = [e \in Ends |-> FALSE] /\ gotTerm = [e \in Ends |-> FALSE]
  /\ isOpen = [e \in Ends |-> TRUE]
  /\ flight = [e \in Ends |-> <<>>]
  /\ nSends = 0 /\ nextId = [e \in Ends |-> 1]
  /\ pend = <<[a |-> "Scenario", e |-> "A", n |-> "timers", t |-> 0,
               s |-> [kind |-> "timers", real |-> RealSeq, faults |-> FALSE, flush |-> TRUE, quiesced |-> TRUE,
                      cooperative |-> FALSE, idle |-> IdleCfg]]>> \o Handshake
  /\ allOk = TRUE

Spec == Init /\ [][Next]_vars

OK == allOk
\* at the time bound the Final clauses (incl. TerminatingEndpointStillCloses) hold
FinalEv(e) == [a |-> "Final", e |-> e, n |-> "", t |-> T,
               v |-> [state |-> "", idle |-> FALSE, txq |-> <<>>, rxq |-> <<>>, rxbuf |-> 0, secure |-> FALSE,
                      closed |-> ~isOpen[e], recvd |-> 0, sent |-> 0]]
AtEnd == pend = <<>> /\ clock = MaxClock /\ ~Busy
EndOK == AtEnd => \A e \in Ends : Real(e) => AllHold(Clauses(FinalEv(e)))
FailedEnd == UNION {{<<e, c.name>> : c \in {d \in Clauses(FinalEv(e)) : Applies(d) /\ ~Holds(d)}} : e \in Ends}
Dbg == [failed |-> IF AtEnd THEN FailedEnd ELSE {}, clock |-> clock, kaDue |-> kaDue, idleDue |-> idleDue, inTerm |-> inTerm,
        isOpen |-> isOpen, nflight |-> [e \in Ends |-> Len(flight[e])], lastWireT |-> lastWireT, lastTrafT |-> lastTrafT,
        termT |-> termT, pend |-> [i \in DOMAIN pend |-> <<pend[i].a, pend[i].e, pend[i].n>>], allOk |-> allOk]
=============================================================================

SPECIFICATION MSpec
CONSTANTS
  Dev = {}
  Enforced = {}
  Known = {}
  Diag = FALSE
INVARIANT WellFormed
CHECK_DEADLOCK FALSE

---------------------------- MODULE MC_Tcpcl_q1 ----------------------------
(* A queues one bundle of length 0, 1 or 3; segment MRU 2 / 1; the socket accepts one
   message or everything per pump; either user may terminate at any moment; users pop. *)
EXTENDS TcpclSession
McLens == {0, 1, 3}
McMaxSend == [A |-> 1, P |-> 0]
McSegMru == [A |-> 1, P |-> 2]
McSegInit == [A |-> 2, P |-> 2]
McQuanta == {"one", "all"}
McAllowTerm == {"A", "P"}
McAllowClose == {}
McEnforced == {"C01", "C04", "C07", "C09", "C18"}
=============================================================================

SPECIFICATION Spec
CONSTANTS
  Catalogue <- McCatalogue
  MaxMsgs = 3
  Dev = {}
  Enforced = {"C07"}
  Known = {}
  Diag = FALSE
INVARIANT OK
INVARIANT FramingExact
CHECK_DEADLOCK FALSE

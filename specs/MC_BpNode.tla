----------------------------- MODULE MC_BpNode -----------------------------
(* Catalogue of look-alike bundles, routing tables and block mixes for exhaustive exploration. *)
EXTENDS BpNode

NodeId == "dtn://node/"
ProbeId == "dtn://node/probe"

Blk(type, num, kind, eid, limit, count, age) ==
  [type |-> type, num |-> num, flags |-> 0, crc |-> 0, crcok |-> TRUE, crcfield |-> FALSE, kind |-> kind, eid |-> eid,
   limit |-> limit, count |-> count, age |-> age, dig |-> kind, len |-> 1]
Pay == Blk(1, 1, "payload", "", -1, -1, -1)
Prev(n, e) == Blk(6, n, "prev", e, -1, -1, -1)
Hop(n, lim, c) == Blk(10, n, "hop", "", lim, c, -1)
Age(n, a) == Blk(7, n, "age", "", -1, -1, a)
Unk(n) == Blk(192, n, "other", "", -1, -1, -1)

Bun(src, seq, dest, rpt, flags, frag, crcok, ext, sec) ==
  LET base == src \o "|1000|" \o seq
      id == IF frag = "" THEN base ELSE base \o "|" \o frag
  IN [ok |-> TRUE, wf |-> TRUE, crcok |-> crcok, id |-> id, base |-> base, src |-> src, dest |-> dest, rpt |-> rpt,
      flags |-> flags, isfrag |-> frag # "", off |-> 0, total |-> 8, ver |-> 7, crcp |-> 2,
      prim |-> base \o dest \o rpt, paylen |-> 4, pay |-> "pay" \o seq, blocks |-> ext \o <<Pay>>, size |-> 80,
      problems |-> <<>>, report |-> <<>>, tsnz |-> TRUE, sec |-> sec]

AllRep == <<"DELREP", "DLVREP", "FWDREP", "RCVREP", "TIME">>
McCatalogue == {
  Bun("dtn://src/app", "0", ProbeId, "dtn:none", <<>>, "", TRUE, <<>>, "none"),
  Bun("dtn://src/app", "1", ProbeId, "dtn://rpt/x", AllRep, "", TRUE, <<>>, "none"),
  Bun("dtn://src/app", "0", ProbeId, "dtn:none", <<>>, "0|8", TRUE, <<>>, "none"),
  Bun("dtn://src/app", "2", ProbeId, "dtn://rpt/x", <<"DELREP", "DLVREP">>, "", TRUE, <<>>, "bad"),
  Bun("dtn://src/app", "3", ProbeId, "dtn:none", <<>>, "", FALSE, <<>>, "none"),
  Bun(NodeId, "0", ProbeId, "dtn://rpt/x", AllRep, "", TRUE, <<>>, "none"),
  Bun("dtn://src/app", "4", NodeId, "dtn://rpt/x", <<"ADMIN">>, "", TRUE, <<>>, "none"),
  Bun("dtn://src/app", "5", "dtn://other/svc", "dtn://rpt/x", <<"FWDREP", "DELREP", "RCVREP">>, "", TRUE,
      <<Prev(2, "dtn://hop1/"), Hop(3, 9, 1), Age(4, 5), Unk(7)>>, "none"),
  Bun("dtn://src/app", "6", "dtn://other/svc", "dtn:none", <<>>, "", TRUE, <<Hop(2, 5, 0), Hop(5, 7, 3)>>, "none"),
  Bun("dtn://src/app", "7", "dtn://bad/x", "dtn://rpt/x", <<"DELREP">>, "", TRUE, <<>>, "none"),
  Bun("dtn://src/app", "8", "dtn://nowhere/x", "dtn://rpt/x", AllRep, "", TRUE, <<>>, "none"),
  Bun("dtn://src/app", "9", "dtn://far/x", "dtn://nort/x", <<"FWDREP", "DELREP">>, "", TRUE, <<>>, "none")
}
\* a route entry matches a destination if the destination is in its set
McRx == << <<{ProbeId}, "deliver">>, <<{"dtn://other/svc", "dtn://far/x"}, "forward">>, <<{"dtn://bad/x", "dtn://other/svc"}, "delete">> >>
McTx == << {"dtn://other/svc"}, {"dtn://rpt/x"} >>
=============================================================================

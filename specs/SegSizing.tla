------------------------------ MODULE SegSizing ------------------------------
(***************************************************************************)
(* Cutting a payload of Total octets into pieces that each encode to at    *)
(* most Mtu octets: BP fragmentation (C05), UDPCL transfer segments (C13)  *)
(* and BTP-U transfer segments (C20).  The sender works piece by piece:    *)
(* at offset off it computes a budget from the envelope of that piece and  *)
(* takes min(budget, remaining) octets.                                    *)
(*                                                                         *)
(* The envelope functions follow the encodings (CborSize); the budget      *)
(* rules are the ones the code uses (CodeBudget); TLC checks, for every    *)
(* (Total, off, Mtu) of the configured windows - in particular across the  *)
(* CBOR head-width boundaries 23/24, 255/256, 65535/65536 - that           *)
(*   - a positive budget yields a non-empty piece within the MTU,          *)
(*   - following the cut from 0 the pieces tile [0, Total) exactly,        *)
(*   - a non-positive budget sends nothing (the sender gives up).          *)
(***************************************************************************)
EXTENDS Naturals, Integers, Sequences, CborSize

CONSTANTS Inst,       \* "bp" | "udpcl" | "btpu"
          Totals,     \* set of payload lengths
          Slacks,     \* set of (Mtu - fixed envelope) values
          Fixed,      \* set of fixed envelope sizes (everything that does not depend on off/len/total)
          MaxPieces,
          Dev

VARIABLES total, mtu, fixed, off, pieces, gaveUp, startAnywhere

vars == <<total, mtu, fixed, off, pieces, gaveUp, startAnywhere>>

\* encoded size of the piece [off, off+len) of a payload of tot octets
Size(fx, o, tot, len) ==
  CASE Inst = "bp"    -> fx + HeadLen(o) + HeadLen(tot) + BstrSize(len)      \* fragment offset, total ADU length, payload bstr
    [] Inst = "udpcl" -> fx + HeadLen(tot) + HeadLen(o) + BstrSize(len)      \* {2: [id, total, offset, bstr]}
    [] Inst = "btpu"  -> fx + len                                            \* head + hint + transfer fields are fixed width

\* the budget as the implementation computes it for the piece at offset o
CodeBudget(fx, o, tot, m) ==
  CASE Inst = "bp"    -> IF "no_worst_case_head" \in Dev
                         THEN m - (fx + HeadLen(o) + HeadLen(tot) + 1)
                         ELSE m - (fx + HeadLen(o) + HeadLen(tot) + HeadLen(tot))
    [] Inst = "udpcl" -> IF "no_worst_case_head" \in Dev
                         THEN m - (fx + HeadLen(tot) + HeadLen(tot) + 1)
                         ELSE m - (fx + HeadLen(tot) + HeadLen(tot) + HeadLen(tot))   \* offset assumed as wide as total
    [] Inst = "btpu"  -> IF "off_by_one" \in Dev THEN m - fx + 1 ELSE m - fx

Min(a, b) == IF a <= b THEN a ELSE b

Init ==
  /\ total \in Totals /\ fixed \in Fixed
  /\ mtu \in {fixed + s - 3 : s \in Slacks}      \* Slacks are offset by 3 (cfg files cannot hold negative numbers)
  /\ startAnywhere \in BOOLEAN
  \* per-piece lemma: any offset below total may be the start of a piece (not only reachable ones)
  /\ off \in IF startAnywhere THEN {o \in Totals \cup {0} : o < total} ELSE {0}
  /\ pieces = <<>> /\ gaveUp = FALSE

Step ==
  /\ off < total /\ ~gaveUp /\ Len(pieces) < MaxPieces
  /\ LET b == CodeBudget(fixed, off, total, mtu) IN
       IF b <= 0
       THEN gaveUp' = TRUE /\ UNCHANGED <<off, pieces>>
       ELSE LET n == Min(b, total - off) IN
            /\ pieces' = Append(pieces, [off |-> off, len |-> n, size |-> Size(fixed, off, total, n)])
            /\ off' = off + n
            /\ UNCHANGED gaveUp
  /\ UNCHANGED <<total, mtu, fixed, startAnywhere>>

Spec == Init /\ [][Step]_vars

EachWithinMtu == \A i \in DOMAIN pieces : pieces[i].size <= mtu
EachNonEmpty == \A i \in DOMAIN pieces : pieces[i].len >= 1
Contiguous == \A i \in DOMAIN pieces : i > 1 => pieces[i].off = pieces[i - 1].off + pieces[i - 1].len
TilesWhenDone == (off = total /\ ~startAnywhere /\ total > 0)
                    => pieces[1].off = 0 /\ pieces[Len(pieces)].off + pieces[Len(pieces)].len = total
NothingWhenImpossible == gaveUp => pieces = <<>> \/ startAnywhere \/ CodeBudget(fixed, off, total, mtu) <= 0
NeverOvershoots == off <= total
=============================================================================

----------------------------- MODULE TcpclPolicy -----------------------------
(***************************************************************************)
(* TLS and peer-authentication policy of a TCPCL endpoint (C15).           *)
(*                                                                         *)
(* Declarative side (what the property demands) and implementation-shaped  *)
(* side (the decision as session.py takes it in recv_message for the       *)
(* contact header and in merge_session_params) are written independently;  *)
(* TLC compares them over the whole decision table:                        *)
(*   own:  canTls, req in {"none","yes","no"}, reqHost, reqNode, passive,  *)
(*         byName (active side connected by DNS name)                      *)
(*   peer: canTls, handshake ok, certificate SAN class per identifier kind *)
(*         ip/dns/node in {"absent","match","mismatch"}                    *)
(* The same declarative operators are used by TcpclObs to judge recorded   *)
(* executions of the real code (scenario kind "policy").                   *)
(***************************************************************************)
EXTENDS Naturals, TLC, TlsPolicyDecl

SanClass == {"absent", "match", "mismatch"}
Req == {"none", "yes", "no"}

Inputs == [canTls : BOOLEAN, req : Req, reqHost : BOOLEAN, reqNode : BOOLEAN, passive : BOOLEAN, byName : BOOLEAN,
           peerCanTls : BOOLEAN, hsOk : BOOLEAN, ip : SanClass, dns : SanClass, node : SanClass,
           peerRsv : BOOLEAN]     \* the peer's contact header also carries reserved flag bits (to be ignored)

(* ---------------- implementation-shaped: the code ---------------- *)
CONSTANT Dev
VARIABLES cfg, outcome
vars == <<cfg, outcome>>

\* match_id(): None (absent), the id (match) or False (present, no match)
MatchId(hasRef, cls) == IF cls = "absent" THEN "none" ELSE IF hasRef /\ cls = "match" THEN "id" ELSE "false"

Decide(c) ==
  LET \* CAN_TLS is one bit of the flags octet; deviation: the whole octet is compared with it
      peerOffers == c.peerCanTls /\ ~("flags_compared_whole" \in Dev /\ c.peerRsv)
      attempt == c.canTls /\ peerOffers
      preOK == c.req = "none" \/ ((c.req = "yes") = attempt)
      secure == attempt /\ c.hsOk
      postOK == c.req = "none" \/ ((c.req = "yes") = secure)
      proceed == preOK /\ (attempt => c.hsOk) /\ (postOK \/ "no_policy_after_attempt" \in Dev)
      ipRes == MatchId(TRUE, c.ip)
      dnsRes == MatchId(HasDnsRef(c), c.dns)
      nodeRes == MatchId(TRUE, c.node)
      anyFail == ipRes = "false" \/ (HasDnsRef(c) /\ dnsRes = "false") \/ nodeRes = "false"
      netAbsent == IF "netname_absent_is_none" \in Dev THEN ipRes = "none" /\ dnsRes = "none"
                   ELSE ipRes # "id" /\ dnsRes # "id"
      nodeAbsent == nodeRes = "none"
      authnFail == secure /\ (anyFail \/ (netAbsent /\ c.reqHost)
                              \/ (nodeAbsent /\ c.reqNode /\ "ignore_require_node" \notin Dev))
  IN [initSent |-> proceed, established |-> proceed /\ ~authnFail, contactFailure |-> proceed /\ authnFail,
      secure |-> secure /\ proceed]

Init == cfg \in Inputs /\ outcome = [initSent |-> FALSE, established |-> FALSE, contactFailure |-> FALSE, secure |-> FALSE]
Next == outcome' = Decide(cfg) /\ UNCHANGED cfg
Spec == Init /\ [][Next]_vars

\* the code's decision agrees with the declarative policy on every row
Decided == outcome = Decide(cfg)
PolicyHolds ==
  Decided =>
    /\ (outcome.initSent => MaySendInit(cfg))
    /\ (outcome.established => MayEstablish(cfg))
    /\ (outcome.secure => Secure(cfg))
    /\ ((Secure(cfg) /\ TlsUseOK(cfg) /\ ~AuthnOK(cfg)) => outcome.contactFailure)
    \* and it is not vacuous: whenever the policy allows it the session is established
    /\ (MayEstablish(cfg) => outcome.established)
=============================================================================

----------------------------- MODULE TcpclTrace -----------------------------
(***************************************************************************)
(* Validation of recorded executions of the real TCPCL implementation      *)
(* against TcpclObs.  TRACE_FILE holds a JSON array of traces (each an     *)
(* array of event records).  TLC explores one linear behaviour per trace   *)
(* (initial states differ in tid); register tid records how far the trace  *)
(* was matched, a DONE line is printed when it was matched completely.     *)
(* Run with -workers 1 (registers are per worker).                         *)
(***************************************************************************)
EXTENDS TcpclObs, Json, IOUtils, TLCExt

Traces == JsonDeserialize(IOEnv.TRACE_FILE)

TraceInit ==
  /\ tid \in 1..Len(Traces)
  /\ l = 1
  /\ ObsInit
  /\ TLCSet(tid, 1)

TraceNext ==
  /\ l <= Len(Traces[tid])
  /\ LET ev == Traces[tid][l] IN StepOK(ev) /\ Upd(ev)
  /\ l' = l + 1
  /\ tid' = tid
  /\ TLCSet(tid, l + 1)
  /\ (l + 1 > Len(Traces[tid]) => PrintT(<<"DONE", tid, kfUsed'>>))

TraceSpec == TraceInit /\ [][TraceNext]_ovars

TraceReport == \A t \in 1..Len(Traces) : PrintT(<<"REACHED", t, TLCGet(t), Len(Traces[t])>>)
=============================================================================

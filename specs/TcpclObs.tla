------------------------------ MODULE TcpclObs ------------------------------
(***************************************************************************)
(* Observable behaviour of one TCPCLv4 connection between two endpoints    *)
(* "A" (active) and "P" (passive), and the properties C01 C04 C07 C09 C14  *)
(* C17 C18 stated over it.                                                 *)
(*                                                                         *)
(* The state is what an outside observer can reconstruct from the public   *)
(* surface: the two octet streams (as messages found by an independent     *)
(* RFC 9174 decoder), the octets each endpoint has read, which messages    *)
(* each endpoint has started to act on, D-Bus calls, returns and signals,  *)
(* socket closure, virtual time.  Every observable occurrence is one event *)
(* record ev and one step  Step(ev) == StepOK(ev) /\ Upd(ev).              *)
(*                                                                         *)
(* Clauses(ev) lists the property clauses that the occurrence must         *)
(* satisfy, each tagged with the ids of the properties it states.  Two     *)
(* users:                                                                  *)
(*  - TcpclTrace: ev comes from a recorded execution of the real code;     *)
(*    a step whose enforced clauses do not all hold is not a behaviour of  *)
(*    this specification (trace rejected).                                 *)
(*  - TcpclSession: ev comes from the implementation-shaped model; the     *)
(*    conjunction of all clauses is accumulated in ok and checked as an    *)
(*    invariant by TLC over all interleavings.                             *)
(***************************************************************************)
EXTENDS Naturals, Integers, Sequences, FiniteSets, TLC, DbusTypes, ClauseLib, TlsPolicyDecl

Ends == {"A", "P"}
Peer(e) == IF e = "A" THEN "P" ELSE "A"
BIG == 2147483647
INF == 1000000000
NONE == -1

VARIABLES scen,        \* scenario description (first event)
          wire,        \* [Ends -> Seq(msg)]  complete messages e has put on the wire
          segs,        \* [Ends -> Seq([id, flags, cum])] the SEGs among them, with cumulative length
          ws,          \* [Ends -> [term, cur, used, nAck, nTerm]] summary of wire[e]
          nH, hCum,    \* messages / octets of the peer's stream that e has acted on
          hTerm, hInit,\* e has acted on a SESS_TERM / SESS_INIT
          rxa,         \* [Ends -> [cur, got, held]] receiver-side assembly as acted on
          rxOct, txOct,
          queued,      \* [Ends -> Seq([id, len])] accepted send requests
          sfin, rfin,  \* finished signals seen (send side / receive side)
          sstart,      \* send_bundle_started ids
          popped,
          closed, termReq, closeReq, idleFired, esc,
          owed,        \* [Ends -> Nat] out-of-place messages not yet answered
          unk,         \* [Ends -> BOOLEAN] an unknown message type has reached e
          refused,     \* [Ends -> SUBSET Nat] own transfers the peer refused while they were pending
          lastView,    \* [Ends -> view record or <<>>]
          now, lastWireT, lastTrafT, estT, termT

ovars == <<tid, l, kfUsed, scen, wire, segs, ws, nH, hCum, hTerm, hInit, rxa, rxOct, txOct,
           queued, sfin, rfin, sstart, popped, closed, termReq, closeReq, idleFired, esc,
           owed, unk, refused, lastView, now, lastWireT, lastTrafT, estT, termT>>

----------------------------------------------------------------------------
(* helpers *)
HasEnd(f)   == f % 2 = 1
HasStart(f) == (f \div 2) % 2 = 1
IsReply(f)  == f % 2 = 1
Ids(s) == {s[i].id : i \in DOMAIN s}
ToSet(s) == {s[i] : i \in DOMAIN s}
SmallCls == {"u8", "u15", "u16", "u31"}
Count(s, P(_)) == Cardinality({i \in DOMAIN s : P(s[i])})
Last(s) == s[Len(s)]
Max(a, b) == IF a >= b THEN a ELSE b

\* total: when the second message of the stream is not a SESS_INIT the clauses about the announced
\* parameters fail (or do not apply) instead of the evaluation failing
NoInit == [t |-> "NONE", ka |-> 0, nid |-> "", mru |-> 0, mrucls |-> "none", xmrucls |-> "none"]
InitOf(e) == IF Len(wire[e]) >= 2 /\ wire[e][2].t = "INIT" THEN wire[e][2] ELSE NoInit
HasInit(e) == InitOf(e).t = "INIT"
\* established from the observer's point of view: e has sent its INIT and acted on the peer's
Est(e) == HasInit(e) /\ hInit[e]
TermOnWire(e) == ws[e].nTerm > 0
NegKa == IF HasInit("A") /\ HasInit("P")
         THEN (IF InitOf("A").ka < InitOf("P").ka THEN InitOf("A").ka ELSE InitOf("P").ka) ELSE 0
IsReal(e) == e \in ToSet(scen.real)
Pair == Cardinality(ToSet(scen.real)) = 2
AnyTermReq == termReq["A"] \/ termReq["P"] \/ idleFired["A"] \/ idleFired["P"]
AnyCloseReq == closeReq["A"] \/ closeReq["P"]
\* a run in which termination was requested and nothing cut the connection
Graceful == Pair /\ AnyTermReq /\ ~AnyCloseReq /\ ~scen.faults /\ esc["A"] = 0 /\ esc["P"] = 0
\* a run without termination, close or injected fault
Clean == Pair /\ ~AnyTermReq /\ ~AnyCloseReq /\ ~scen.faults

\* the next message of the peer's stream that e has not acted on (an unknown type cannot be framed)
NextIsUnknown(e) == nH[e] < Len(wire[Peer(e)]) /\ wire[Peer(e)][nH[e] + 1].t = "UNKNOWN"
NextMsgSize(e) == IF nH[e] < Len(wire[Peer(e)]) /\ ~NextIsUnknown(e) THEN wire[Peer(e)][nH[e] + 1].size ELSE INF
UnknownArrived(e) == NextIsUnknown(e) /\ rxOct[e] > hCum[e]
StartedIds(e) == {segs[e][i].id : i \in {j \in DOMAIN segs[e] : HasStart(segs[e][j].flags)}}
EndedIds(e) == {segs[e][i].id : i \in {j \in DOMAIN segs[e] : HasEnd(segs[e][j].flags)}}
FinalAckedIds(e) == \* transfer ids of e for which the peer has put a final ACK on the wire
  {wire[Peer(e)][i].id : i \in {j \in DOMAIN wire[Peer(e)] :
        wire[Peer(e)][j].t = "ACK" /\ HasEnd(wire[Peer(e)][j].flags)}}
SuccessIds(s) == {s[i].id : i \in {j \in DOMAIN s : s[j].result = "success"}}
NothingPending(e) ==
  /\ Ids(queued[e]) \subseteq Ids(sfin[e])
  /\ rxa[e].cur = NONE
  /\ rxOct[e] = hCum[e]

\* out-of-place classification of a message e is about to act on (C17), from e's observable state
OutOfPlace(e, m) ==
  \/ m.t = "UNKNOWN"
  \/ m.t = "CH" /\ (~m.magicok \/ m.ver # 4)
  \/ m.t \in {"SEG", "ACK", "REFUSE", "TERM"} /\ ~hInit[e]
  \/ m.t = "SEG" /\ ~HasStart(m.flags) /\ rxa[e].cur # m.id
  \/ m.t \in {"ACK", "REFUSE"} /\ hInit[e] /\ m.id \notin (Ids(queued[e]) \ Ids(sfin[e]))
  \* a SESS_TERM marked as a reply although e has not asked for termination
  \* (once e has acted on a SESS_TERM it is terminating, whether or not its own SESS_TERM has left the message
  \* buffer yet: a further SESS_TERM is a duplicate which cannot be owed a second answer)
  \/ m.t = "TERM" /\ hInit[e] /\ m.flags = 1 /\ ~ws[e].term /\ ~hTerm[e]

----------------------------------------------------------------------------
(* clauses: sets of [tags, name, ok, kf], see ClauseLib *)
WireClauses(ev) ==
  LET e == ev.e  m == ev.m  w == wire[e]  p == Peer(e)  s == ws[e]
      isSeg == m.t = "SEG"  start == isSeg /\ HasStart(m.flags)
  IN {
    C({"C04"}, "FirstIsContactHeader", Len(w) = 0 => m.t = "CH" /\ m.magicok /\ m.ver = 4),
    C({"C04"}, "SecondIsSessInit", Len(w) = 1 => m.t = "INIT"),
    C({"C04"}, "OnlySessionMessagesAfterInit",
        Len(w) >= 2 => m.t \in {"SEG", "ACK", "REFUSE", "KA", "REJECT", "TERM"}),
    C({"C04", "C09"}, "AtMostOneSessTerm", m.t = "TERM" => ~s.term),
    C({"C04", "C09"}, "NoNewTransferAfterSessTerm", start => ~s.term),
    C({"C04"}, "TransferIdNeverReused", start => m.id \notin s.used),
    C({"C04"}, "SegmentsContiguous_StartOnlyWhenNoneOpen", start => s.cur = NONE),
    C({"C04"}, "StartCarriesTotalLength", start => m.total >= 0),
    C({"C04"}, "SegmentsContiguous_ContinuesOpenTransfer", (isSeg /\ ~HasStart(m.flags)) => s.cur = m.id),
    C({"C04", "C14"}, "SegmentWithinPeerMru",
        (isSeg /\ HasInit(p) /\ InitOf(p).mrucls \in SmallCls) => m.len <= InitOf(p).mru),
    C({"C04"}, "SegmentOnlyAfterPeerInit", (isSeg /\ IsReal(p)) => HasInit(p)),
    C({"C04"}, "AckEchoesSegmentFlagsAndCumulativeLength",
        (m.t = "ACK" /\ Pair) =>
            LET k == s.nAck + 1 IN
            /\ k <= Len(segs[p])
            /\ segs[p][k].id = m.id /\ segs[p][k].flags = m.flags /\ segs[p][k].cum = m.len),
    C({"C09"}, "ReplyFlagOnlyWhenResponding", (m.t = "TERM" /\ IsReply(m.flags)) => hTerm[e]),
    C({"C09"}, "UnsolicitedTermHasLocalCause",
        (m.t = "TERM" /\ ~IsReply(m.flags) /\ scen.kind # "policy") => termReq[e] \/ idleFired[e]),
    C({"C15"}, "SessInitOnlyWhenTlsUseMatchesPolicy",
        (m.t = "INIT" /\ scen.kind = "policy") => MaySendInit(scen.pol[e])),
    C({"C15"}, "ContactFailureReasonOnAuthnFailure",
        (m.t = "TERM" /\ scen.kind = "policy" /\ ~IsReply(m.flags)) => m.reason = 4 /\ ~AuthnOK(scen.pol[e])),
    C({"C14"}, "IdleTimeoutReason",
        (m.t = "TERM" /\ ~IsReply(m.flags) /\ idleFired[e] /\ ~termReq[e]) => m.reason = 1)
  }

HandleClauses(ev) ==
  LET e == ev.e  m == ev.m IN {
    C({"C07"}, "ActsOnlyOnCompletelyReceivedMessage", ev.i.cum >= 0 /\ ev.i.cum <= rxOct[e]),
    C({"C07"}, "ActsInStreamOrder", ev.i.idx = nH[e] + 1),
    C({"C17", "C01"}, "NeverAssemblesMismatchedSegments", TRUE)
  }

SigClauses(ev) ==
  LET e == ev.e  p == Peer(e)  v == ev.vals IN
  { C({"C18"}, "SignalConformsToDeclaredSignature", ArgsConform(ev.i.sigt, ev.i.tags)) }
  \cup
  (IF ev.n = "send_bundle_finished" /\ ev.i.nargs = 3 THEN {
      C({"C18"}, "SendFinishedAtMostOncePerTransfer", v.bid \notin Ids(sfin[e])),
      C({"C01"}, "SuccessOnlyAfterReceiverHoldsBundle",
          (v.result = "success" /\ Pair) => v.bid \in SuccessIds(rfin[p])),
      C({"C01"}, "SuccessReportsWholeLength",
          (v.result = "success") => \E i \in DOMAIN queued[e] : queued[e][i].id = v.bid /\ queued[e][i].len = v.len)
    } ELSE {})
  \cup
  (IF ev.n = "session_state_changed" /\ scen.kind = "policy" /\ v.state = "established" THEN {
      C({"C15"}, "EstablishedOnlyWhenPolicyAllows", MayEstablish(scen.pol[e]))
    } ELSE {})
  \cup
  (IF ev.n = "recv_bundle_finished" /\ ev.i.nargs = 3 THEN {
      C({"C18"}, "RecvFinishedAtMostOncePerTransfer", v.bid \notin Ids(rfin[e])),
      C({"C01"}, "DeliveredInQueueOrderExactlyOnce",
          (v.result = "success" /\ Pair) =>
             LET k == Len(rfin[e]) + 1 IN
             k <= Len(queued[p]) /\ queued[p][k].id = v.bid /\ queued[p][k].len = v.len),
      C({"C01", "C17"}, "DeliveredOnlyWhenCompletelyActedOn",
          v.result = "success" => v.bid \in rxa[e].held)
    } ELSE {})

RetClauses(ev) ==
  { C({"C18"}, "ReturnConformsToDeclaredSignature", ArgsConform(ev.i.sigt, ev.i.tags)) }
  \cup
  (IF ev.n = "get_session_parameters" /\ Pair /\ Est(ev.e) THEN
     LET e == ev.e  p == Peer(e)  pv == ev.pv IN {
       C({"C14"}, "KeepaliveIsMinimumOfBoth", pv.keepalive = NegKa),
       C({"C14"}, "PeerNodeIdAsAnnounced", pv.peer_nodeid = InitOf(p).nid),
       CK({"C14"}, "PeerSegmentMruAsAnnounced",
           pv.segmru = InitOf(p).mru /\ pv.segmrucls = InitOf(p).mrucls,
           "params_clamped_to_int32", InitOf(p).mrucls \notin SmallCls),
       CK({"C14"}, "PeerTransferMruAsAnnounced", pv.xfermrucls = InitOf(p).xmrucls,
           "params_clamped_to_int32", InitOf(p).xmrucls \notin SmallCls)
     } ELSE {})

PopClauses(ev) ==
  LET e == ev.e IN {
    C({"C01"}, "PopReturnsExactlyTheSentBytes", Pair => ev.i.same),
    C({"C18", "C01"}, "PopOnlyAnnouncedAndOnce", ev.i.id \in (Ids(rfin[e]) \ popped[e])),
    C({"C17"}, "PopReturnsOneTransfersSegmentsOnly",
        ~Pair => \E x \in rxa[e].fin : x.id = ev.i.id /\ x.parts = ev.i.runs)
  }

ViewClauses(ev) ==
  LET e == ev.e  v == ev.v  p == Peer(e) IN {
    C({"C18"}, "RxQueueListsFinishedNotPopped", ToSet(v.rxq) = SuccessIds(rfin[e]) \ popped[e]),
    C({"C18"}, "TxQueueListsQueuedNotFinished", ToSet(v.txq) = Ids(queued[e]) \ Ids(sfin[e])),
    \* (octets which arrived after the endpoint closed the connection are nobody's pending work)
    C({"C18"}, "IdleOnlyWhenNothingPending",
        v.idle => (NothingPending(e) \/ (closed[e] /\ Ids(queued[e]) \subseteq Ids(sfin[e]) /\ rxa[e].cur = NONE))),
    C({"C07"}, "EveryCompleteMessageActedOnAtCallbackEnd",
        (~v.closed /\ esc[e] = 0 /\ ~closed[e]) => hCum[e] + NextMsgSize(e) > rxOct[e]),
    C({"C07"}, "RemainderKeptInReceiveBuffer",
        (~v.closed /\ esc[e] = 0 /\ ~closed[e]) => v.rxbuf = rxOct[e] - hCum[e])
  }

TimeClauses(t) == {
    C({"C14"}, "KeepaliveSentWhenIntervalElapses",
        \A f \in Ends : (IsReal(f) /\ Est(f) /\ Est(Peer(f)) /\ NegKa > 0 /\ ~closed[f] /\ ~TermOnWire(f) /\ ~hTerm[f]
                          /\ scen.flush)
                        => t <= Max(lastWireT[f], estT[f]) + 1000 * NegKa),
    C({"C14"}, "IdleTimeoutStartsTermination",
        \A f \in Ends : (IsReal(f) /\ Est(f) /\ scen.idle[f] > 0 /\ ~closed[f] /\ ~TermOnWire(f) /\ ~hTerm[f]
                          /\ scen.flush /\ ~termReq[f])
                        => t <= Max(lastTrafT[f], estT[f]) + 1000 * scen.idle[f])
  }

FinalClauses(ev) ==
  LET e == ev.e  p == Peer(e)  v == ev.v IN {
    CK({"C01"}, "EveryQueuedBundleDelivered",
        Clean => Ids(queued[e]) = SuccessIds(rfin[p]),
        "zero_length_never_sent", \E i \in DOMAIN queued[e] : queued[e][i].len = 0),
    CK({"C01"}, "EveryQueuedBundleReportedSuccess",
        Clean => Ids(queued[e]) = SuccessIds(sfin[e]),
        "zero_length_never_sent", \E i \in DOMAIN queued[e] : queued[e][i].len = 0),
    C({"C09"}, "BothEndpointsCloseAfterTermination",
        (Pair /\ AnyTermReq /\ ~scen.faults) => closed[e]),
    \* one real endpoint and a co-operative scripted peer: both SESS_TERM exchanged, every transfer of the endpoint
    \* ended and finally acknowledged, no transfer of the peer open, everything the peer wrote acted on - the
    \* endpoint closes whatever else the peer's last write contained
    C({"C09"}, "TerminatedIdleEndpointCloses",
        (~Pair /\ IsReal(e) /\ scen.quiesced /\ scen.cooperative /\ ~scen.faults /\ esc[e] = 0
           /\ ws[e].term /\ hTerm[e] /\ ws[p].term /\ ws[p].cur = NONE /\ nH[e] = Len(wire[p])
           /\ StartedIds(e) = EndedIds(e) /\ StartedIds(e) \subseteq FinalAckedIds(e))
          => closed[e]),
    C({"C09"}, "CloseOrDisconnectLeavesNobodyHalfOpen",
        (Pair /\ AnyCloseReq) => closed[e]),
    C({"C09"}, "ExactlyOneSessTermPerSide", (Graceful /\ Est(e)) => ws[e].nTerm = 1),
    C({"C09"}, "StartedTransfersCompleteAndAreAcknowledged",
        Graceful => /\ StartedIds(e) = EndedIds(e)
                    /\ StartedIds(e) \subseteq FinalAckedIds(e)
                    /\ StartedIds(e) \subseteq SuccessIds(rfin[p])
                    /\ StartedIds(e) \subseteq SuccessIds(sfin[e])),
    C({"C09"}, "UnstartedTransfersReportedNotSent",
        Graceful => \A i \in DOMAIN queued[e] :
                       queued[e][i].id \notin StartedIds(e) =>
                          \E j \in DOMAIN sfin[e] : sfin[e][j].id = queued[e][i].id /\ sfin[e][j].result # "success"),
    C({"C18"}, "ExactlyOneFinishedSignalWhenGraceful",
        Graceful => Ids(queued[e]) \subseteq Ids(sfin[e])),
    C({"C18"}, "IdleBecomesTrueOnceDrained",
        (scen.quiesced /\ ~closed[e] /\ NothingPending(e) /\ esc[e] = 0 /\ txOct[e] = rxOct[p] /\ ~v.closed
            /\ rxOct[e] = txOct[p]) => v.idle),
    CK({"C17"}, "OutOfPlaceMessagesAnswered", owed[e] = 0,
        "unknown_type_never_answered", unk[e] /\ owed[e] = 1),
    C({"C15"}, "TlsUsedExactlyWhenBothOfferAndHandshakeSucceeds",
        (scen.kind = "policy" /\ ~v.closed) => v.secure = Secure(scen.pol[e])),
    C({"C15"}, "EstablishedWhenPolicyAllows",
        (scen.kind = "policy" /\ MayEstablish(scen.pol["A"]) /\ MayEstablish(scen.pol["P"]))
           => v.state = "established" /\ ~v.closed),
    C({"C15"}, "NotEstablishedOtherwise",
        (scen.kind = "policy" /\ ~MayEstablish(scen.pol[e])) => v.state # "established"),
    C({"C15"}, "AuthnFailureEndsWithContactFailure",
        (scen.kind = "policy" /\ TlsUseOK(scen.pol[e]) /\ Secure(scen.pol[e]) /\ ~AuthnOK(scen.pol[e]) /\ hInit[e])
           => (\E i \in DOMAIN wire[e] : wire[e][i].t = "TERM" /\ wire[e][i].reason = 4) \/ closed[e]),
    C({"C17"}, "OwnTransfersUnaffected",
        (~Pair /\ IsReal(e) /\ scen.cooperative /\ ~closed[e] /\ ~TermOnWire(e) /\ ~hTerm[e] /\ esc[e] = 0 /\ ~unk[e])
           => /\ Ids(queued[e]) \ refused[e] = SuccessIds(sfin[e])
              /\ refused[e] \subseteq Ids(sfin[e])),
    C({"C14"}, "TerminatingEndpointStillCloses",
        (IsReal(e) /\ TermOnWire(e) /\ scen.idle[e] > 0 /\ scen.flush
            /\ now >= Max(termT[e], lastTrafT[e]) + 1000 * scen.idle[e] + 1000)
           => closed[e])
  } \cup TimeClauses(now)

Clauses(ev) ==
  \* (what a scripted peer writes is the stimulus, not the behaviour under judgement)
  CASE ev.a = "Wire"    -> IF IsReal(ev.e) THEN WireClauses(ev) ELSE {}
    [] ev.a = "WireBad" -> { C({"C04", "C07"}, "WrittenOctetsDecodeIndependently", FALSE) }
    [] ev.a = "Handle"  -> HandleClauses(ev)
    [] ev.a = "Sig"     -> SigClauses(ev)
    [] ev.a = "Ret"     -> RetClauses(ev)
    [] ev.a = "UserSend" -> { C({"C04", "C18"}, "FreshTransferIdReturned", ev.i.id \notin Ids(queued[ev.e])) }
    [] ev.a = "UserPop" -> PopClauses(ev)
    [] ev.a = "View"    -> ViewClauses(ev)
    [] ev.a = "Escape"  -> { CK({"C17", "C07", "C09", "C14"}, "NoExceptionEscapesACallback", ev.i.user,
                               ev.i.kf, TRUE) }
    [] ev.a = "Cb"      -> TimeClauses(ev.t) \cup
                           (IF ev.n = "idle" THEN {
                              C({"C14"}, "IdleTimerFiresOnlyAfterIdleTimeWithoutTraffic",
                                (scen.idle[ev.e] > 0 /\ scen.flush)
                                  => ev.t >= Max(lastTrafT[ev.e], estT[ev.e]) + 1000 * scen.idle[ev.e]) }
                            ELSE {})
    [] ev.a = "Final"   -> FinalClauses(ev)
    \* another connection of the same process whose transfer ids the adversary named on this connection
    [] ev.a = "Bystander" ->
        LET b == ev.i IN {
          C({"C17"}, "OtherConnectionKeepsItsQueue", ToSet(b.txq) = ToSet(b.queued)),
          C({"C17"}, "OtherConnectionsTransfersAllSucceedOnce",
              /\ \A k \in ToSet(b.queued) : Cardinality({j \in DOMAIN b.fin : b.fin[j].id = k}) = 1
              /\ \A j \in DOMAIN b.fin : b.fin[j].result = "success" /\ b.fin[j].id \in ToSet(b.queued)),
          C({"C17"}, "OtherConnectionUndisturbed", b.esc = 0 /\ b.complaints = 0 /\ ~b.closed) }
    [] OTHER -> {}

StepOK(ev) == AllOK(Clauses(ev))
KfOf(ev) == KfIn(Clauses(ev))

----------------------------------------------------------------------------
(* state update per event (never depends on whether clauses held) *)
Upd(ev) ==
  LET e == ev.e IN
  /\ kfUsed' = kfUsed \cup KfOf(ev)
  /\ scen' = (IF ev.a = "Scenario" THEN ev.s ELSE scen)
  /\ now' = (IF ev.a \in {"Cb", "Final"} /\ ev.t > now THEN ev.t ELSE now)
  /\ IF ev.a = "Wire" THEN
        LET m == ev.m  s == ws[e]
            isSeg == m.t = "SEG"
            prevCum == IF isSeg /\ ~HasStart(m.flags) /\ Len(segs[e]) > 0 /\ Last(segs[e]).id = m.id
                       THEN Last(segs[e]).cum ELSE 0
        IN
        /\ wire' = [wire EXCEPT ![e] = Append(@, m)]
        /\ segs' = (IF isSeg THEN [segs EXCEPT ![e] = Append(@, [id |-> m.id, flags |-> m.flags, cum |-> prevCum + m.len])]
                    ELSE segs)
        /\ ws' = [ws EXCEPT ![e] = [
                    term |-> s.term \/ m.t = "TERM",
                    nTerm |-> s.nTerm + (IF m.t = "TERM" THEN 1 ELSE 0),
                    cur |-> IF isSeg THEN (IF HasEnd(m.flags) THEN NONE ELSE m.id) ELSE s.cur,
                    used |-> IF isSeg /\ HasStart(m.flags) THEN s.used \cup {m.id} ELSE s.used,
                    nAck |-> s.nAck + (IF m.t = "ACK" THEN 1 ELSE 0)]]
        /\ lastWireT' = [lastWireT EXCEPT ![e] = now]
        \* (the KEEPALIVEs a terminating endpoint keeps sending do not postpone its closing: "hears nothing
        \* further" is about what arrives)
        /\ lastTrafT' = (IF m.t = "KA" /\ s.term THEN lastTrafT ELSE [lastTrafT EXCEPT ![e] = now])
        /\ termT' = (IF m.t = "TERM" THEN [termT EXCEPT ![e] = now] ELSE termT)
        /\ owed' = (IF m.t \in {"REJECT", "TERM"} /\ owed[e] > 0 THEN [owed EXCEPT ![e] = @ - 1] ELSE owed)
     ELSE /\ UNCHANGED <<wire, segs, ws, lastWireT, termT>>
          /\ lastTrafT' = (IF ev.a = "Rx" /\ ev.i.k > 0 THEN [lastTrafT EXCEPT ![e] = now]
                           ELSE IF ev.a = "Handle" /\ ev.m.t = "INIT" /\ lastTrafT[e] < now
                                THEN [lastTrafT EXCEPT ![e] = now] ELSE lastTrafT)
          /\ owed' = (IF ev.a = "Handle" /\ OutOfPlace(e, ev.m) THEN [owed EXCEPT ![e] = @ + 1]
                      ELSE IF ev.a = "Closed" THEN [owed EXCEPT ![e] = 0]
                      ELSE IF ev.a = "View" /\ UnknownArrived(e) /\ ~unk[e] /\ ~closed[e] THEN [owed EXCEPT ![e] = @ + 1]
                      ELSE owed)
  /\ IF ev.a = "Handle" THEN
        LET m == ev.m  r == rxa[e] IN
        /\ nH' = [nH EXCEPT ![e] = @ + 1]
        /\ hCum' = [hCum EXCEPT ![e] = IF ev.i.cum >= 0 THEN ev.i.cum ELSE @]
        /\ hTerm' = [hTerm EXCEPT ![e] = @ \/ m.t = "TERM"]
        /\ hInit' = [hInit EXCEPT ![e] = @ \/ m.t = "INIT"]
        /\ estT' = (IF m.t = "INIT" THEN [estT EXCEPT ![e] = now] ELSE estT)
        /\ rxa' = IF m.t = "SEG" /\ hInit[e] /\ (HasStart(m.flags) \/ r.cur = m.id) THEN
                     LET base == IF HasStart(m.flags) THEN <<>> ELSE r.parts
                         parts == IF m.len > 0 THEN Append(base, <<m.tok, m.len>>) ELSE base
                         got == (IF HasStart(m.flags) THEN 0 ELSE r.got) + m.len
                     IN IF HasEnd(m.flags)
                        THEN [rxa EXCEPT ![e] = [cur |-> NONE, got |-> got, held |-> r.held \cup {m.id}, parts |-> <<>>,
                                                  fin |-> {x \in r.fin : x.id # m.id} \cup {[id |-> m.id, parts |-> parts]}]]
                        ELSE [rxa EXCEPT ![e] = [cur |-> m.id, got |-> got, held |-> r.held, parts |-> parts, fin |-> r.fin]]
                  ELSE rxa
     ELSE UNCHANGED <<nH, hCum, hTerm, hInit, estT, rxa>>
  /\ refused' = (IF ev.a = "Handle" /\ ev.m.t = "REFUSE" /\ hInit[e] /\ ev.m.id \in (Ids(queued[e]) \ Ids(sfin[e]))
                 THEN [refused EXCEPT ![e] = @ \cup {ev.m.id}] ELSE refused)
  /\ unk' = (IF ev.a = "View" /\ UnknownArrived(e) THEN [unk EXCEPT ![e] = TRUE] ELSE unk)
  /\ rxOct' = (IF ev.a = "Rx" THEN [rxOct EXCEPT ![e] = @ + ev.i.k] ELSE rxOct)
  /\ txOct' = (IF ev.a = "Tx" THEN [txOct EXCEPT ![e] = @ + ev.i.k] ELSE txOct)
  /\ queued' = (IF ev.a = "UserSend" THEN [queued EXCEPT ![e] = Append(@, [id |-> ev.i.id, len |-> ev.i.len])] ELSE queued)
  /\ sfin' = (IF ev.a = "Sig" /\ ev.n = "send_bundle_finished" /\ ev.i.nargs = 3
             THEN [sfin EXCEPT ![e] = Append(@, [id |-> ev.vals.bid, len |-> ev.vals.len, result |-> ev.vals.result])]
             ELSE sfin)
  /\ rfin' = (IF ev.a = "Sig" /\ ev.n = "recv_bundle_finished" /\ ev.i.nargs = 3
             THEN [rfin EXCEPT ![e] = Append(@, [id |-> ev.vals.bid, len |-> ev.vals.len, result |-> ev.vals.result])]
             ELSE rfin)
  /\ sstart' = (IF ev.a = "Sig" /\ ev.n = "send_bundle_started" THEN [sstart EXCEPT ![e] = @ \cup {ev.vals.bid}] ELSE sstart)
  /\ popped' = (IF ev.a = "UserPop" THEN [popped EXCEPT ![e] = @ \cup {ev.i.id}] ELSE popped)
  /\ closed' = (IF ev.a = "Closed" THEN [closed EXCEPT ![e] = TRUE] ELSE closed)
  /\ termReq' = (IF ev.a = "UserTerm" /\ ev.i.ok THEN [termReq EXCEPT ![e] = TRUE] ELSE termReq)
  /\ closeReq' = (IF ev.a = "UserClose" THEN [closeReq EXCEPT ![e] = TRUE] ELSE closeReq)
  /\ idleFired' = (IF ev.a = "Cb" /\ ev.n = "idle" THEN [idleFired EXCEPT ![e] = TRUE] ELSE idleFired)
  /\ esc' = (IF ev.a = "Escape" /\ ~ev.i.user THEN [esc EXCEPT ![e] = @ + 1] ELSE esc)
  /\ lastView' = (IF ev.a \in {"View", "Final"} THEN [lastView EXCEPT ![e] = ev.v] ELSE lastView)

ObsInitWith(realEnds) ==
  /\ kfUsed = {}
  /\ scen = [kind |-> "none", real |-> realEnds, faults |-> FALSE, flush |-> TRUE, quiesced |-> TRUE,
             cooperative |-> TRUE, idle |-> [A |-> 0, P |-> 0]]
  /\ wire = [e \in Ends |-> <<>>]
  /\ segs = [e \in Ends |-> <<>>]
  /\ ws = [e \in Ends |-> [term |-> FALSE, nTerm |-> 0, cur |-> NONE, used |-> {}, nAck |-> 0]]
  /\ nH = [e \in Ends |-> 0] /\ hCum = [e \in Ends |-> 0]
  /\ hTerm = [e \in Ends |-> FALSE] /\ hInit = [e \in Ends |-> FALSE]
  /\ rxa = [e \in Ends |-> [cur |-> NONE, got |-> 0, held |-> {}, parts |-> <<>>, fin |-> {}]]
  /\ rxOct = [e \in Ends |-> 0] /\ txOct = [e \in Ends |-> 0]
  /\ queued = [e \in Ends |-> <<>>]
  /\ sfin = [e \in Ends |-> <<>>] /\ rfin = [e \in Ends |-> <<>>]
  /\ sstart = [e \in Ends |-> {}]
  /\ popped = [e \in Ends |-> {}]
  /\ closed = [e \in Ends |-> FALSE] /\ termReq = [e \in Ends |-> FALSE]
  /\ closeReq = [e \in Ends |-> FALSE] /\ idleFired = [e \in Ends |-> FALSE]
  /\ esc = [e \in Ends |-> 0] /\ owed = [e \in Ends |-> 0] /\ unk = [e \in Ends |-> FALSE] /\ refused = [e \in Ends |-> {}]
  /\ lastView = [e \in Ends |-> <<>>]
  /\ now = 0
  /\ lastWireT = [e \in Ends |-> 0] /\ lastTrafT = [e \in Ends |-> 0]
  /\ estT = [e \in Ends |-> 0] /\ termT = [e \in Ends |-> 0]
ObsInit == ObsInitWith(<<"A", "P">>)
=============================================================================

-------------------------------- MODULE BpObs --------------------------------
(***************************************************************************)
(* Observable behaviour of one BPv7 agent (bp.agent.Agent) and the         *)
(* properties C05 C06 C08 C10 C11 C12 C19 stated over it.                  *)
(*                                                                         *)
(* Observable occurrences (events):                                        *)
(*   Recv     the convergence layer hands octets to the agent; b is what   *)
(*            an independent RFC 9171 reader finds in them; rx / tx are    *)
(*            the routing tables evaluated on b.dest ([matches, action]);  *)
(*            sec is the generator's knowledge of the security blocks      *)
(*   Consume  an application consumed a payload                            *)
(*   ClOut    octets handed to the convergence layer (independent reader)  *)
(*   Send     a local application asks the agent to send bundle b          *)
(*   Boundary end of a callback   Escape  exception out of a callback      *)
(*   Final    end of the run (all deferred callbacks have run)             *)
(*                                                                         *)
(* hist maps the identity of every bundle the agent was obliged to act on  *)
(* to what it has to do with it (expected disposition, computed here from  *)
(* the property text) and what it has been seen to do.                     *)
(***************************************************************************)
EXTENDS Naturals, Integers, Sequences, FiniteSets, TLC, ClauseLib, CborSize

VARIABLES scen,
          hist,      \* [id -> record] bundles accepted for processing (good CRC, new, foreign source)
          order,     \* Seq(id) in order of acceptance
          cur,       \* the Recv being processed: [kind, id, seen0, idle0, acts] or kind = "none"
          consumed,  \* Seq of Consume events
          outs,      \* Seq of ClOut events that are not status reports
          reports,   \* Seq of abstract report records
          sent,      \* [id -> b] bundles a local application asked to send
          cov,       \* [base -> SUBSET Nat] payload offsets received in fragments routed "deliver"
          firstfrag, \* [base -> Seq(Int)] block types of the fragment with offset 0
          nSeen,     \* agent's own count of seen identities at the last boundary (auxiliary)
          escapes

bvars == <<tid, l, kfUsed, scen, hist, order, cur, consumed, outs, reports, sent, cov, firstfrag, nSeen, escapes>>

ToSet(s) == {s[i] : i \in DOMAIN s}
Has(b, f) == f \in ToSet(b.flags)
ReqFlag(action) == CASE action = "received" -> "RCVREP" [] action = "forwarded" -> "FWDREP"
                     [] action = "delivered" -> "DLVREP" [] action = "deleted" -> "DELREP"
Actions == {"received", "forwarded", "delivered", "deleted"}

\* first matching receive route decides; the node's own administrative endpoint is always delivered
FirstMatch(routes) == IF \E i \in DOMAIN routes : routes[i][1]
                      THEN routes[CHOOSE i \in DOMAIN routes : routes[i][1] /\ \A j \in 1..(i - 1) : ~routes[j][1]][2]
                      ELSE "none"
Disposition(ev) == IF ev.admin \/ ev.appdest THEN "deliver" ELSE FirstMatch(ev.rx)
TxMtu(routes) == IF \E i \in DOMAIN routes : routes[i][1]
                 THEN routes[CHOOSE i \in DOMAIN routes : routes[i][1] /\ \A j \in 1..(i - 1) : ~routes[j][1]][2]
                 ELSE -2      \* -2: no transmit route, -1: route without MTU
InHist(id) == id \in DOMAIN hist
BlocksOfKind(b, k) == {i \in DOMAIN b.blocks : b.blocks[i].kind = k}
NonHopByHop(b) == {[type |-> b.blocks[i].type, num |-> b.blocks[i].num, flags |-> b.blocks[i].flags, dig |-> b.blocks[i].dig]
                     : i \in {j \in DOMAIN b.blocks : b.blocks[j].kind \notin {"prev", "age", "hop"}}}
Hops(b) == {[num |-> b.blocks[i].num, limit |-> b.blocks[i].limit, count |-> b.blocks[i].count]
              : i \in BlocksOfKind(b, "hop")}
OutsOf(base) == {i \in DOMAIN outs : outs[i].b.base = base}
ReportsOf(base) == {i \in DOMAIN reports : reports[i].subj = base}
ConsumedOf(base) == {i \in DOMAIN consumed : consumed[i].base = base}
\* a status report made by this node (a status report of another node that is merely forwarded here is an
\* ordinary bundle in transit: C11 applies to it, not C19)
IsReport(b) == Len(b.report) > 0 /\ b.src = scen.node
Requested(b) == {a \in Actions : Has(b, ReqFlag(a))}
\* what has actually happened to the bundle with identity id so far
Occurred(id) ==
  LET h == hist[id] IN
  {"received"}
  \* (a fragment is delivered as part of the bundle re-assembled from it)
  \cup (IF h.act = "deliver" /\ ~h.secbad /\ (~h.b.isfrag \/ ConsumedOf(h.b.base) # {}) THEN {"delivered"} ELSE {})
  \cup (IF \E i \in DOMAIN outs : outs[i].b.base = h.b.base THEN {"forwarded"} ELSE {})
  \cup (IF h.act = "delete" \/ h.secbad \/ (h.act = "forward" /\ h.mtu = -2) \/ h.hoplimit THEN {"deleted"} ELSE {})

----------------------------------------------------------------------------
OutputClauses(ev) ==
  LET b == ev.b IN {
    C({"C08", "C02", "C11", "C19", "C05"}, "TransmittedBundleDecodesIndependently", b.ok),
    C({"C02", "C11", "C05", "C19"}, "TransmittedBundleIsWellFormedRfc9171", b.ok => b.wf),
    C({"C08", "C11", "C19"}, "EveryTransmittedBlockCrcIsValid", b.ok => b.crcok),
    C({"C08"}, "CrcFieldPresentExactlyWhenCrcTypeNonZero",
        b.ok => \A i \in DOMAIN b.blocks : b.blocks[i].crcfield = (b.blocks[i].crc # 0)),
    C({"C05"}, "WithinRouteMtuUnlessSentUnchanged",
        (b.ok /\ ev.mtu >= 0 /\ b.size > ev.mtu)
          => (Has(b, "NOFRAG") \/ (b.isfrag /\ (InHist(b.id) \/ b.id \in DOMAIN sent))
              \/ IsReport(b)))
  }

ReportClauses(ev) ==
  LET b == ev.b  r == b.report[1]
      subjects == {id \in DOMAIN hist : hist[id].b.base = r.subj}
  IN {
    C({"C19"}, "ReportIsADecodableStatusReport", r.bad = ""),
    C({"C19", "C10", "C08"}, "ReportSubjectIsABundleTheAgentProcessed", r.bad = "" => subjects # {}),
    C({"C19"}, "ReportAddressedToReportToEndpoint",
        (r.bad = "" /\ subjects # {}) => \E id \in subjects : hist[id].b.rpt = b.dest /\ b.dest # "dtn:none"),
    C({"C19"}, "AssertsOnlyRequestedActionsThatOccurred",
        (r.bad = "" /\ subjects # {}) =>
           \E id \in subjects : ToSet(r.asserted) \subseteq (Requested(hist[id].b) \cap Occurred(id))),
    C({"C19"}, "AssertsSomething", r.bad = "" => r.asserted # <<>>),
    C({"C19"}, "TimesExactlyWhenRequested",
        (r.bad = "" /\ subjects # {}) =>
           \E id \in subjects : ToSet(r.timed) = (IF Has(hist[id].b, "TIME") THEN ToSet(r.asserted) ELSE {})),
    C({"C19"}, "ReportIsFlaggedAdministrativeRecord", Has(b, "ADMIN")),
    C({"C19"}, "ReportRequestsNoFurtherReports",
        ToSet(b.flags) \cap {"RCVREP", "FWDREP", "DLVREP", "DELREP"} = {}),
    C({"C19"}, "ForwardedBundleNeverReportedDeleted",
        (r.bad = "" /\ "deleted" \in ToSet(r.asserted)) => OutsOf(r.subj) = {}),
    C({"C19", "C12"}, "SecurityFailureReportedWithSecurityReason",
        (r.bad = "" /\ subjects # {} /\ "deleted" \in ToSet(r.asserted) /\ \E id \in subjects : hist[id].secbad)
           => r.reason \in {12, 13, 14, 15, 16, 8})
  }

ForwardClauses(ev) ==
  LET b == ev.b
      cands == {id \in DOMAIN hist : hist[id].b.base = b.base /\ hist[id].act = "forward"}
      whole == {id \in cands : id = b.id}
  IN {
    C({"C10", "C08", "C11"}, "OnlyBundlesRoutedForwardAreTransmitted",
        (b.ok /\ b.id \notin DOMAIN sent /\ b.base \notin {sent[x].base : x \in DOMAIN sent}) => cands # {}),
    C({"C10"}, "ForwardedAtMostOnce",
        (b.ok /\ whole # {}) => ~\E i \in DOMAIN outs : outs[i].b.id = b.id),
    C({"C11"}, "PrimaryBlockUnchanged", whole # {} => \A id \in whole : hist[id].b.prim = b.prim),
    C({"C11"}, "PayloadUnchanged", whole # {} => \A id \in whole : hist[id].b.pay = b.pay /\ hist[id].b.paylen = b.paylen),
    \* (stated for bundles forwarded as they are; of the fragments made here only the first carries the
    \* blocks that are not replicated, the Previous Node block among them)
    C({"C11"}, "ExactlyOnePreviousNodeNamingThisNode",
        whole # {} => /\ Cardinality(BlocksOfKind(b, "prev")) = 1
                      /\ \A i \in BlocksOfKind(b, "prev") : b.blocks[i].eid = scen.node),
    C({"C11"}, "NoForeignPreviousNodeOnFragmentsMadeHere",
        (cands # {} /\ whole = {}) => /\ Cardinality(BlocksOfKind(b, "prev")) <= 1
                                       /\ \A i \in BlocksOfKind(b, "prev") : b.blocks[i].eid = scen.node),
    C({"C11"}, "EveryHopCountIncrementedByOne",
        whole # {} => \A id \in whole :
            Hops(b) = {[num |-> h.num, limit |-> h.limit, count |-> h.count + 1] : h \in Hops(hist[id].b)}),
    C({"C11"}, "AtMostOneBundleAge", cands # {} => Cardinality(BlocksOfKind(b, "age")) <= 1),
    C({"C11"}, "BundleAgeReflectsTimeSinceCreation",
        \* agedelta = transmitted age - (now - creation time), or, with creation time zero,
        \*            transmitted age - (age as received + time spent at this node)
        cands # {} => \A i \in BlocksOfKind(b, "age") : ev.agedelta = 0),
    C({"C11"}, "OtherBlocksUnchanged",
        whole # {} => \A id \in whole : NonHopByHop(b) = NonHopByHop(hist[id].b)),
    C({"C11"}, "NoGarbledHopByHopBlock", cands # {} => BlocksOfKind(b, "garbled") = {})
  }

ConsumeClauses(ev) ==
  LET whole == {id \in DOMAIN hist : hist[id].b.base = ev.base /\ ~hist[id].b.isfrag}
      frags == {id \in DOMAIN hist : hist[id].b.base = ev.base /\ hist[id].b.isfrag /\ hist[id].act = "deliver"}
      total == IF frags = {} THEN 0 ELSE hist[CHOOSE id \in frags : TRUE].b.total
  IN {
    C({"C10", "C08", "C12"}, "DeliveredOnlyBundlesRoutedDeliver",
        \/ \E id \in whole : hist[id].act = "deliver"
        \/ (whole = {} /\ frags # {})),
    C({"C10", "C06"}, "DeliveredAtMostOncePerIdentity",
        ~\E i \in DOMAIN consumed : consumed[i].base = ev.base /\ consumed[i].app = ev.app),
    C({"C12"}, "NeverDeliveredWithUnverifiableSecurityBlock", \A id \in whole : ~hist[id].secbad),
    \* a bundle re-assembled here from fragments of a bundle whose security blocks do not verify
    C({"C12"}, "NeverDeliveredReassembledWithUnverifiableSecurityBlock",
        (whole = {} /\ frags # {}) => \A id \in frags : ~hist[id].secbad),
    C({"C12"}, "DeliveredPayloadIsTheOriginalPlaintext",
        \A id \in whole : hist[id].plain # "" => ev.pay = hist[id].plain),
    C({"C12"}, "AcceptedSecurityBlocksRemoved",
        \A id \in whole : (scen.accept /\ hist[id].sec = "good") => ev.sec_left = 0),
    C({"C12"}, "UnacceptedSecurityBlocksKept",
        \A id \in whole : (~scen.accept /\ hist[id].sec = "good") => ev.sec_left = hist[id].nsec),
    C({"C06"}, "NothingDeliveredWhileOctetsMissing",
        (whole = {} /\ frags # {}) => (ev.base \in DOMAIN cov /\ cov[ev.base] = 0..(total - 1))),
    C({"C06"}, "ReassembledPayloadEqualsOriginal",
        (whole = {} /\ frags # {} /\ ev.base \in DOMAIN scen.orig)
           => ev.pay = scen.orig[ev.base].dig /\ ev.paylen = scen.orig[ev.base].len),
    C({"C06"}, "ReassembledBlocksAreThoseOfFirstFragment",
        (whole = {} /\ frags # {} /\ ev.base \in DOMAIN firstfrag) => ev.btypes = firstfrag[ev.base]),
    C({"C06", "C10"}, "FragmentsThemselvesAreNotDelivered", ~ev.isfrag)
  }

BoundaryClauses(ev) ==
  IF cur.kind \in {"bad", "dup", "own"} /\ ev.n = "recv" THEN {
    C({"C08"}, "CorruptBundleLeavesNoTrace",
        cur.kind = "bad" => ev.seen = cur.seen0 /\ cur.acts = 0 /\ ev.idle = cur.idle0),
    C({"C10"}, "RepeatedOrOwnBundleCausesNothing",
        cur.kind \in {"dup", "own"} => cur.acts = 0 /\ ev.idle = cur.idle0)
  } ELSE {}

FragmentTiling(base, total) ==
  \* the transmitted fragments of base tile [0, total) : contiguous, non-overlapping, complete
  \* (stated on the end points so that large payloads do not have to be enumerated octet by octet)
  LET fr == {i \in OutsOf(base) : outs[i].b.isfrag}
      Off(i) == outs[i].b.off
      End(i) == outs[i].b.off + outs[i].b.paylen
  IN /\ \A i \in fr : outs[i].b.total = total /\ End(i) <= total /\ (outs[i].b.paylen > 0 \/ total = 0)
     /\ \A i, j \in fr : (i # j) => (End(i) <= Off(j) \/ End(j) <= Off(i))          \* no overlap
     /\ \A i \in fr : Off(i) = 0 \/ \E j \in fr : End(j) = Off(i)                  \* no gap before i
     /\ (total > 0 => \E i \in fr : End(i) = total)                                \* reaches the end

FinalClauses ==
  UNION {
    LET h == hist[id]  b == h.b
        whole == {i \in OutsOf(b.base) : outs[i].b.id = id}
        fr == {i \in OutsOf(b.base) : outs[i].b.isfrag /\ ~b.isfrag}
        canSend == h.mtu # -2
        deliverable == h.act = "deliver" /\ ~h.secbad /\ ~b.isfrag /\ b.dest = scen.probe
        \* no other accepted bundle shares source and creation timestamp (look-alikes do, on purpose)
        sole == \A id2 \in DOMAIN hist : hist[id2].b.base = b.base => id2 = id
    IN {
      C({"C10", "C08"}, "ForwardRoutedBundleIsTransmitted",
          (h.act = "forward" /\ canSend /\ ~h.hoplimit) => (whole # {} \/ fr # {})),
      C({"C10"}, "NothingTransmittedUnlessRoutedForward",
          (h.act # "forward" /\ sole) => OutsOf(b.base) \subseteq {i \in DOMAIN outs : outs[i].b.id \in DOMAIN sent}),
      \* known finding: an integrity block that is itself encrypted (a target of a confidentiality block, as
      \* RFC 9172 3.9 requires when both cover one block) is never decoded after decryption, so the bundle is
      \* deleted although every operation verifies
      CK({"C10", "C08", "C12"}, "DeliverRoutedBundleReachesItsApplication",
          deliverable => Cardinality({i \in ConsumedOf(b.base) : consumed[i].app = "probe"}) = 1,
          "encrypted_bib_never_delivered", h.encbib /\ h.sec = "good" /\ ConsumedOf(b.base) = {}),
      C({"C10", "C12"}, "NotDeliveredOtherwise",
          ((h.act # "deliver" \/ h.secbad) /\ sole) => ConsumedOf(b.base) = {}),
      C({"C05"}, "FragmentsTileTheOriginalPayload",
          (fr # {}) => FragmentTiling(b.base, b.paylen)),
      C({"C05"}, "ForwardedWholeOrAsFragmentsNotBoth", ~(whole # {} /\ fr # {})),
      C({"C19"}, "RequestedReportEmittedForWhatOccurred",
          (b.rpt # "dtn:none" /\ h.rptroute /\ h.act \in {"deliver", "forward", "delete"} /\ ~(b.isfrag /\ h.act = "deliver"))
             => \A a \in (Requested(b) \cap Occurred(id)) :
                   \E i \in ReportsOf(b.base) : a \in ToSet(reports[i].asserted)),
      \* a bundle that arrived as fragments and was re-assembled and delivered here is a delivered bundle
      C({"C19"}, "ReassembledDeliveryIsReported",
          (b.isfrag /\ h.act = "deliver" /\ b.off = 0 /\ Has(b, "DLVREP") /\ b.rpt # "dtn:none" /\ h.rptroute
             /\ b.base \in DOMAIN cov /\ cov[b.base] = 0..(b.total - 1) /\ ConsumedOf(b.base) # {})
             => \E i \in ReportsOf(b.base) : "delivered" \in ToSet(reports[i].asserted)),
      C({"C19"}, "NoReportWithoutRequest",
          (b.rpt = "dtn:none" \/ Requested(b) = {}) => ReportsOf(b.base) = {}),
      C({"C19"}, "ForwardedNeverAlsoReportedDeleted",
          OutsOf(b.base) # {} => ~\E i \in ReportsOf(b.base) : "deleted" \in ToSet(reports[i].asserted)),
      C({"C12", "C19"}, "SecurityFailureMarkedDeleted",
          (h.secbad /\ h.act = "deliver" /\ Has(b, "DELREP") /\ b.rpt # "dtn:none" /\ h.rptroute)
             => \E i \in ReportsOf(b.base) : "deleted" \in ToSet(reports[i].asserted))
    } : id \in DOMAIN hist }
  \cup
  UNION {
    LET b == sent[id]
        whole == {i \in DOMAIN outs : outs[i].b.id = id}
        fr == {i \in OutsOf(b.base) : outs[i].b.isfrag /\ ~b.isfrag}
    IN {
      C({"C05"}, "SentFragmentsTileTheOriginalPayload", fr # {} => FragmentTiling(b.base, b.paylen)),
      C({"C05"}, "SentWholeOrAsFragmentsNotBoth", ~(whole # {} /\ fr # {})),
      C({"C05"}, "UnchangedWhenNotFragmenting",
          (whole # {}) => \A i \in whole : outs[i].b.pay = b.pay /\ outs[i].b.paylen = b.paylen /\ outs[i].b.flags = b.flags),
      C({"C05"}, "NothingAlteredWhenFragmentationImpossible",
          (whole = {} /\ fr # {}) => \A i \in fr : outs[i].fragok)
    } : id \in DOMAIN sent }
  \cup
  UNION {
    LET frags == {id \in DOMAIN hist : hist[id].b.base = base /\ hist[id].b.isfrag /\ hist[id].act = "deliver"}
        total == hist[CHOOSE id \in frags : TRUE].b.total
        complete == cov[base] = 0..(total - 1)
        dest == hist[CHOOSE id \in frags : TRUE].b.dest
    IN {
      C({"C06"}, "ReassembledBundleDeliveredExactlyOnce",
          (complete /\ dest = scen.probe /\ base \in DOMAIN firstfrag /\ \A id \in frags : ~hist[id].secbad)
             => Cardinality({i \in ConsumedOf(base) : consumed[i].app = "probe"}) = 1),
      \* (a bundle whose security blocks all verify is delivered, also when it arrived as fragments)
      C({"C12"}, "VerifiableReassembledBundleIsDelivered",
          (complete /\ dest = scen.probe /\ base \in DOMAIN firstfrag /\ \A id \in frags : hist[id].sec = "good")
             => Cardinality({i \in ConsumedOf(base) : consumed[i].app = "probe"}) = 1),
      C({"C06"}, "NothingDeliveredFromIncompleteSet", ~complete => ConsumedOf(base) = {})
    } : base \in DOMAIN cov }

FragOutClauses(ev) ==
  \* a fragment produced by this node (the original was not a fragment)
  LET b == ev.b
      origs == {hist[id].b : id \in {x \in DOMAIN hist : hist[x].b.base = b.base /\ ~hist[x].b.isfrag}}
               \cup {sent[id] : id \in {x \in DOMAIN sent : sent[x].base = b.base /\ ~sent[x].isfrag}}
  IN IF b.ok /\ b.isfrag /\ origs # {} THEN {
       C({"C05"}, "FragmentCarriesOriginalIdentityAndTotalLength",
           \A o \in origs : b.total = o.paylen /\ b.src = o.src /\ b.dest = o.dest /\ Has(b, "FRAG")),
       C({"C05"}, "FragmentPayloadIsTheRightSliceOfTheOriginal", ev.fragok),
       \* binds the size model of SegSizing to the real encoding
       C({"C05"}, "EncodedSizeMatchesSizeModel",
           (b.total < 1000000 /\ ev.fx >= 0) => b.size = ev.fx + HeadLen(b.off) + HeadLen(b.total) + BstrSize(b.paylen)),
       C({"C05"}, "FirstFragmentCarriesAllExtensionBlocksLaterOnlyReplicated",
           \A o \in origs :
              LET ext(x) == {[type |-> x.blocks[i].type, num |-> x.blocks[i].num]
                               : i \in {j \in DOMAIN x.blocks : x.blocks[j].type # 1 /\ x.blocks[j].kind \notin {"prev", "age"}
                                                                 /\ x.blocks[j].type \notin {11, 12}}}
                  repl(x) == {[type |-> x.blocks[i].type, num |-> x.blocks[i].num]
                               : i \in {j \in DOMAIN x.blocks : x.blocks[j].type # 1 /\ x.blocks[j].flags % 2 = 1
                                                                 /\ x.blocks[j].kind \notin {"prev", "age"}
                                                                 /\ x.blocks[j].type \notin {11, 12}}}
              IN IF b.off = 0 THEN ext(o) \subseteq ext(b) ELSE ext(b) \cap ext(o) = repl(o))
     } ELSE {}

Clauses(ev) ==
  CASE ev.a = "ClOut" -> OutputClauses(ev) \cup (IF ev.b.ok /\ IsReport(ev.b) THEN ReportClauses(ev)
                                                  ELSE IF ev.b.ok THEN ForwardClauses(ev) \cup FragOutClauses(ev) ELSE {})
    [] ev.a = "Consume" -> ConsumeClauses(ev)
    [] ev.a = "Boundary" -> BoundaryClauses(ev)
    [] ev.a = "Final" -> FinalClauses
    [] OTHER -> {}

----------------------------------------------------------------------------
Ext(f, k, v) == [x \in DOMAIN f \cup {k} |-> IF x = k THEN v ELSE f[x]]

Upd(ev) ==
  /\ kfUsed' = kfUsed \cup KfIn(Clauses(ev))
  /\ scen' = IF ev.a = "Scenario" THEN ev.s ELSE scen
  /\ IF ev.a = "Recv" THEN
        LET b == ev.b
            \* corrupt: the scenario produced these octets by a bit flip / burst inside a CRC-protected block of
            \* a valid bundle (the damaged block may no longer be recognisable as a block at all)
            bad == ~b.ok \/ ~b.crcok \/ ev.corrupt
            own == ~bad /\ ev.own
            \* a bundle re-assembled from fragments and handed on has the identity of the whole bundle
            reasm == /\ ~b.isfrag
                     /\ \E i \in DOMAIN consumed : consumed[i].base = b.base
                     /\ ~\E id \in DOMAIN hist : hist[id].b.base = b.base /\ ~hist[id].b.isfrag
            dup == ~bad /\ ~own /\ (b.id \in DOMAIN hist \/ reasm)
            kind == IF bad THEN "bad" ELSE IF own THEN "own" ELSE IF dup THEN "dup" ELSE "new"
            act == Disposition(ev)
            coverNow == (kind = "new" /\ b.isfrag /\ act = "deliver")
        IN
        /\ cur' = [kind |-> kind, id |-> b.id, seen0 |-> nSeen, idle0 |-> ev.idle0, acts |-> 0]
        /\ hist' = IF kind = "new"
                   THEN Ext(hist, b.id, [b |-> b, act |-> act, mtu |-> TxMtu(ev.tx), secbad |-> ev.sec = "bad",
                                         sec |-> ev.sec, plain |-> ev.plain, nsec |-> ev.nsec, rptroute |-> ev.rptroute, encbib |-> ev.encbib,
                                         hoplimit |-> FALSE])
                   ELSE hist
        /\ order' = IF kind = "new" THEN Append(order, b.id) ELSE order
        /\ cov' = IF coverNow
                  THEN Ext(cov, b.base, (IF b.base \in DOMAIN cov THEN cov[b.base] ELSE {}) \cup (b.off..(b.off + b.paylen - 1)))
                  ELSE cov
        /\ firstfrag' = IF coverNow /\ b.off = 0
                        THEN Ext(firstfrag, b.base, ev.btypes) ELSE firstfrag
     ELSE /\ UNCHANGED <<hist, order, cov, firstfrag>>
          /\ cur' = IF ev.a \in {"Consume", "ClOut"} THEN [cur EXCEPT !.acts = @ + 1]
                    ELSE IF ev.a = "Boundary" THEN [cur EXCEPT !.kind = "none"] ELSE cur
  /\ consumed' = IF ev.a = "Consume" THEN Append(consumed, ev) ELSE consumed
  /\ outs' = IF ev.a = "ClOut" /\ ev.b.ok /\ ~IsReport(ev.b) THEN Append(outs, ev) ELSE outs
  /\ reports' = IF ev.a = "ClOut" /\ ev.b.ok /\ IsReport(ev.b) /\ ev.b.report[1].bad = ""
                THEN Append(reports, ev.b.report[1]) ELSE reports
  /\ sent' = IF ev.a = "Send" THEN Ext(sent, ev.b.id, ev.b) ELSE sent
  /\ nSeen' = IF ev.a = "Boundary" THEN ev.seen ELSE nSeen
  /\ escapes' = IF ev.a \in {"Escape", "SendError"} /\ ~ev.expected THEN escapes + 1 ELSE escapes

ObsInit ==
  /\ kfUsed = {}
  /\ scen = [node |-> "", kind |-> "bp", accept |-> FALSE, probe |-> "", orig |-> <<>>]
  /\ hist = <<>> /\ order = <<>>
  /\ cur = [kind |-> "none", id |-> "", seen0 |-> 0, idle0 |-> 0, acts |-> 0]
  /\ consumed = <<>> /\ outs = <<>> /\ reports = <<>>
  /\ sent = <<>> /\ cov = <<>> /\ firstfrag = <<>>
  /\ nSeen = 0 /\ escapes = 0

StepOK(ev) == AllOK(Clauses(ev))
=============================================================================

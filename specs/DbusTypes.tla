------------------------------ MODULE DbusTypes ------------------------------
(***************************************************************************)
(* Conformance of a recorded Python value (as a structural tag)  to a     *)
(* D-Bus type (as a parsed signature tree).  This is the marshalling rule  *)
(* of dbus-python: if Conforms is FALSE the real binding raises TypeError /*)
(* OverflowError / ValueError when the signal is emitted or the method     *)
(* reply is sent.                                                          *)
(*                                                                         *)
(* A type tree is [c |-> code, ch |-> <<children>>]; a tag is              *)
(* [k, c, ty, path, keys, sub, empty, n] (see harness/shims/dbus).         *)
(* Integers >= 2^31 never reach TLC: tags carry range classes.             *)
(***************************************************************************)
EXTENDS Naturals, Sequences, FiniteSets

IntClasses == {"nbig","n63","n31","n15","u8","u15","u16","u31","u32","u63","u64","big"}

\* range classes that fit each fixed-width integer type code
Fits(code) ==
  CASE code = "y" -> {"u8"}
    [] code = "n" -> {"n15","u8","u15"}
    [] code = "q" -> {"u8","u15","u16"}
    [] code = "i" -> {"n31","n15","u8","u15","u16","u31"}
    [] code = "u" -> {"u8","u15","u16","u31","u32"}
    [] code = "x" -> {"n63","n31","n15","u8","u15","u16","u31","u32","u63"}
    [] code = "t" -> {"u8","u15","u16","u31","u32","u63","u64"}
    [] OTHER -> {}

IntCodes == {"y","n","q","i","u","x","t"}

\* which code a dbus wrapper type stands for (typed values inside a variant)
TypedCode(ty) ==
  CASE ty = "Byte" -> "y" [] ty = "Int16" -> "n" [] ty = "UInt16" -> "q"
    [] ty = "Int32" -> "i" [] ty = "UInt32" -> "u" [] ty = "Int64" -> "x"
    [] ty = "UInt64" -> "t" [] OTHER -> "i"      \* a plain Python int is guessed as INT32

SeqToSet(s) == {s[i] : i \in DOMAIN s}

RECURSIVE Guessable(_)
\* can dbus-python guess a signature for this value (needed for 'v')?
Guessable(tag) ==
  CASE tag.k = "none"  -> FALSE
    [] tag.k = "other" -> FALSE
    [] tag.k = "int"   -> tag.c \in Fits(TypedCode(tag.ty))
    [] tag.k \in {"bool","float","str","bytes"} -> TRUE
    [] tag.k \in {"list","tuple"} ->
         /\ (tag.empty => tag.ty # "")            \* empty plain list: "unable to guess signature"
         /\ \A i \in DOMAIN tag.sub : Guessable(tag.sub[i])
    [] tag.k = "dict"  ->
         /\ (tag.empty => tag.ty # "")
         /\ SeqToSet(tag.keys) \subseteq {"str","int","bool","bytes"}
         /\ \A i \in DOMAIN tag.sub : Guessable(tag.sub[i])
    [] OTHER -> FALSE

RECURSIVE Conforms(_, _)
Conforms(node, tag) ==
  LET c == node.c IN
  CASE c \in {"s","g"} -> tag.k = "str"
    [] c = "o" -> tag.k = "str" /\ tag.path
    [] c = "b" -> tag.k # "other"                  \* truthiness of anything marshals
    [] c \in IntCodes -> tag.k = "int" /\ tag.c \in Fits(c)
    [] c = "d" -> tag.k \in {"float","int"}
    [] c = "v" -> Guessable(tag)
    [] c = "a" ->
         LET el == node.ch[1] IN
         IF el.c = "{"
         THEN /\ tag.k = "dict"
              /\ \A i \in DOMAIN tag.keys :
                    Conforms(el.ch[1], [k |-> tag.keys[i], c |-> "u8", ty |-> "", path |-> FALSE,
                                        keys |-> <<>>, sub |-> <<>>, empty |-> FALSE, n |-> 0])
              /\ \A i \in DOMAIN tag.sub : Conforms(el.ch[2], tag.sub[i])
         ELSE \/ (el.c = "y" /\ tag.k = "bytes")
              \/ /\ tag.k \in {"list","tuple"}
                 /\ \A i \in DOMAIN tag.sub : Conforms(el, tag.sub[i])
    [] c = "(" ->
         /\ tag.k \in {"tuple","list"}
         /\ tag.n = Len(node.ch)
         /\ (tag.k = "tuple" => Len(tag.sub) = Len(node.ch)
                                /\ \A i \in DOMAIN node.ch : Conforms(node.ch[i], tag.sub[i]))
         /\ (tag.k = "list" => \A i \in DOMAIN tag.sub : \E j \in DOMAIN node.ch : Conforms(node.ch[j], tag.sub[i]))
    [] OTHER -> FALSE

\* A whole emission / reply: one argument per complete type, each conforming.
ArgsConform(sigt, tags) ==
  /\ Len(sigt) = Len(tags)
  /\ \A i \in DOMAIN sigt : Conforms(sigt[i], tags[i])
=============================================================================

------------------------------ MODULE CborSize ------------------------------
(* Sizes of CBOR encodings (RFC 8949): the head of an item carrying argument n. *)
EXTENDS Naturals
HeadLen(n) == IF n < 24 THEN 1 ELSE IF n < 256 THEN 2 ELSE IF n < 65536 THEN 3 ELSE 5   \* n < 2^32 here
UintSize(n) == HeadLen(n)
BstrSize(n) == HeadLen(n) + n
=============================================================================

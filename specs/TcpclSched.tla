----------------------------- MODULE TcpclSched -----------------------------
(***************************************************************************)
(* TcpclSession with a history of the callback choices, for use with        *)
(* tlc -simulate: every behaviour of the model is printed as a JSON list    *)
(* of scheduling choices when it reaches the depth bound or quiesces.       *)
(* The conformance drivers replay these schedules into the real code       *)
(* (entries are choices, not assertions: an entry that is not applicable   *)
(* in the real state is skipped and counted).                              *)
(***************************************************************************)
EXTENDS TcpclSession, Json

CONSTANT Depth
VARIABLE hist

H(name, e, arg) == hist' = Append(hist, [op |-> name, e |-> e, arg |-> arg])

SInit == Init /\ hist = <<>>
SNext ==
  \/ Drain /\ UNCHANGED hist
  \/ \E e \in Ends :
       \/ Start(e) /\ H("start", e, 0)
       \/ UserTerminate(e) /\ H("term", e, 0)
       \/ UserClose(e) /\ H("close", e, 0)
       \/ UserPop(e) /\ H("pop", e, 0)
       \/ ProcessQueue(e) /\ H("pq", e, 0)
       \/ NetRecv(e) /\ H("rx", e, 0)
       \/ PeerEof(e) /\ H("rx", e, 0)
       \/ \E len \in Lens : UserSend(e, len) /\ H("send", e, len)
       \/ \E q \in Quanta : TxPump(e, q) /\ H("tx", e, IF q = "one" THEN 1 ELSE 0)
SSpec == SInit /\ [][SNext]_<<vars, hist>>

Emit == (TLCGet("level") >= Depth \/ Quiescent) => PrintT(<<"SCHED", ToJson(hist)>>)
SConstraint == Emit /\ TLCGet("level") < Depth
=============================================================================

SPECIFICATION Spec
CONSTANTS
  Lens <- McLens
  MaxSend <- McMaxSend
  SegMru <- McSegMru
  SegInit <- McSegInit
  Quanta <- McQuanta
  AllowTerm <- McAllowTerm
  AllowClose <- McAllowClose
  AllowPop = TRUE
  Adv = {}
  AdvMoves = {}
  MaxAdv = 0
  Dev = {}
  Enforced <- McEnforced
  Known = {}
  Diag = FALSE
INVARIANT OK
INVARIANT QuiescentOK
CHECK_DEADLOCK FALSE

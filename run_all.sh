#!/bin/bash
# usage: run_all.sh [quick|thorough] [parallelism]  -- runs every check, prints one summary line per property
V=$(dirname "$(readlink -f "$0")")
TIER=${1:-quick}; PAR=${2:-3}
mkdir -p "$V/.work/runall"
rm -f "$V"/.work/runall/*.log
printf '%s\n' C01 C02 C03 C04 C05 C06 C07 C08 C09 C10 C11 C12 C13 C14 C15 C16 C17 C18 C19 C20 | \
  xargs -P "$PAR" -I{} sh -c "'$V/check' {} --tier $TIER > '$V/.work/runall/{}.log' 2>&1; echo \"{} exit \$?: \$(grep -E '^C[0-9]+ (quick|thorough):' '$V/.work/runall/{}.log' | tail -1)\""
